"""Installs the simulator's seams into the checking process (from the outside:
module attributes only, nothing in /repo is edited)."""
from __future__ import annotations

import functools
import os
import sys

from . import kernel, pools, rng

_DONE = False
REPO = None
OPTIMIZERS: dict = {}          # name -> class (the exported optimizers, discovered by introspection)
_REAL = {}


def repo_path() -> str:
    return os.path.realpath(os.environ.get("VERIF_REPO", "/repo"))


def install():
    """Idempotent.  Must be called before any pyvolutionary object is created."""
    global _DONE, REPO
    if _DONE:
        return
    REPO = repo_path()
    if REPO not in sys.path[:1]:
        sys.path.insert(0, REPO)
    for m in [m for m in sys.modules if m == "pyvolutionary" or m.startswith("pyvolutionary.")]:
        del sys.modules[m]
    import pyvolutionary
    got = os.path.realpath(os.path.dirname(os.path.dirname(pyvolutionary.__file__)))
    if got != REPO:
        raise RuntimeError(f"pyvolutionary resolves to {got}, expected {REPO}")
    import pyvolutionary.abstract as abstract
    import pyvolutionary.helpers as helpers
    import pyvolutionary.hypertuner as hypertuner
    import pyvolutionary.multitask as multitask

    import warnings
    # numpy RuntimeWarnings of the library under test are not our output: they are *filtered* ("ignore"), not switched
    # off at the source - NumPy keeps its default error state, so the warnings machinery (a process-global, not
    # thread-safe list of filters) is exercised exactly as in a user's program
    warnings.simplefilter("ignore")
    rng.install()
    helpers.parallel = pools.NAMESPACE
    hypertuner.parallel = pools.NAMESPACE
    multitask.parallel = pools.NAMESPACE
    from . import env
    env.install()

    # -- exported optimizers
    for n in dir(pyvolutionary):
        o = getattr(pyvolutionary, n)
        if isinstance(o, type) and issubclass(o, abstract.OptimizationAbstract) and o is not abstract.OptimizationAbstract:
            OPTIMIZERS[n] = o

    # -- tap: every generation appended to `evolution` goes through abstract.Population(...)
    real_population = abstract.Population
    _REAL["Population"] = real_population

    def population_tap(**kwargs):
        sim = kernel.ACTIVE
        if sim is not None and not sim.aborting:
            hook = sim.obs.get("on_generation")
            if hook is not None:
                fr = sys._getframe(1)
                hook(sim, fr.f_locals.get("self"), kwargs.get("agents"), kwargs.get("task_type"))
        return real_population(**kwargs)

    abstract.Population = population_tap

    # -- tap: the pool boundary
    real_gpr = helpers.get_pool_results
    _REAL["get_pool_results"] = real_gpr

    def get_pool_results_tap(executors, *a, **k):
        sim = kernel.ACTIVE
        res = real_gpr(executors, *a, **k)
        if sim is not None and not sim.aborting:
            hook = sim.obs.get("on_pool_results")
            if hook is not None:
                hook(sim, executors, res)
        return res

    abstract.get_pool_results = get_pool_results_tap

    # -- tap: greedy selection inputs (C11 serial-equivalence oracle)
    real_gsp = abstract.OptimizationAbstract._greedy_select_population

    @functools.wraps(real_gsp)
    def gsp_tap(self, new_population, *a, **k):
        sim = kernel.ACTIVE
        hook = sim.obs.get("on_greedy") if sim is not None and not sim.aborting else None
        if hook is None:
            return real_gsp(self, new_population, *a, **k)
        old = list(self._population)
        new = list(new_population)
        out = real_gsp(self, new_population, *a, **k)
        hook(sim, self, old, new, list(self._population))
        return out

    abstract.OptimizationAbstract._greedy_select_population = gsp_tap

    # -- shared-write probe + directed pre-emption: a pooled task (worker thread of a thread pool) that writes an
    #    attribute of an object it shares with the other threads (task, optimizer, configuration) opens a potential
    #    race window; the simulator counts it and parks the writer right there
    import importlib
    models = importlib.import_module("pyvolutionary.models")
    models = sys.modules["pyvolutionary.models"]

    def tap_setattr(klass, label):
        orig = klass.__setattr__

        def __setattr__(self, name, value):
            orig(self, name, value)
            sim = kernel.ACTIVE
            if sim is not None and not sim.aborting:
                t = sim.cur()
                if t is not None and not t.is_main and t.ctx.parent is None and t.name.startswith("p"):
                    sim.count("shared_write_in_pool")
                    sim.force_preempt(f"shared_write:{label}.{name}")

        klass.__setattr__ = __setattr__

    tap_setattr(models.Task, "task")
    tap_setattr(models.BaseOptimizationConfig, "config")
    tap_setattr(abstract.OptimizationAbstract, "optimizer")

    # -- tap: cycle boundaries (class-level wrappers: picklable by reference)
    def wrap_step(cls):
        orig = cls.__dict__.get("optimization_step")
        if orig is None or getattr(orig, "_sim_wrapped", False):
            return

        @functools.wraps(orig)
        def step(self, *a, **k):
            sim = kernel.ACTIVE
            if sim is None or sim.aborting:
                return orig(self, *a, **k)
            sim.event("step_begin", getattr(self, "_current_cycle", -1))
            hook = sim.obs.get("on_step")
            if hook is not None:
                hook(sim, self, "begin")
            r = orig(self, *a, **k)
            sim.event("step_end", getattr(self, "_current_cycle", -1))
            if hook is not None:
                hook(sim, self, "end")
            return r

        step._sim_wrapped = True
        cls.optimization_step = step

    for cls in OPTIMIZERS.values():
        for k in cls.__mro__:
            if k is not abstract.OptimizationAbstract and issubclass(k, abstract.OptimizationAbstract):
                wrap_step(k)
    _REAL["wrap_step"] = wrap_step
    _DONE = True


def wrap_optimizer_class(cls):
    """Give a simulator-supplied optimizer class (engine S) the same cycle taps."""
    _REAL["wrap_step"](cls)
