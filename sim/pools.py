"""Pool seam (N3, N4, N9): a model of concurrent.futures (CPython 3.12, fork start
method) running on the simulator's scheduler.

`NAMESPACE` is assigned to ``pyvolutionary.{helpers,hypertuner,multitask}.parallel``.
Without an active simulation it forwards to the real ``concurrent.futures``.
"""
from __future__ import annotations

import concurrent.futures as _real
import concurrent.futures._base as _real_base
import concurrent.futures.process as _real_process
import pickle
from collections import deque

from . import kernel

PENDING, RUNNING, FINISHED, CANCELLED = "PENDING", "RUNNING", "FINISHED", "CANCELLED"
CancelledError = _real.CancelledError
TimeoutError = _real.TimeoutError
BrokenExecutor = _real.BrokenExecutor
BrokenProcessPool = _real_process.BrokenProcessPool
InvalidStateError = _real.InvalidStateError


class SimFuture:
    _ids = 0

    def __init__(self, sim, label=""):
        self._sim = sim
        self._state = PENDING
        self._result = None
        self._exception = None
        self._callbacks = []
        self._done_seq = None
        self._retrieved = 0
        sim.obs["fut_seq"] = sim.obs.get("fut_seq", 0) + 1
        self.fid = sim.obs["fut_seq"]
        self.label = label

    # -- executor side
    def _finish(self, result=None, exception=None):
        if self._state in (FINISHED, CANCELLED):
            return
        self._result, self._exception = result, exception
        self._state = FINISHED
        sim = self._sim
        sim.obs["done_seq"] = sim.obs.get("done_seq", 0) + 1
        self._done_seq = sim.obs["done_seq"]
        sim.event("future_done", f"{self.fid}:{'exc' if exception is not None else 'ok'}")
        for cb in self._callbacks:
            try:
                cb(self)
            except Exception:
                pass

    # -- client side
    def cancel(self):
        if self._state in (RUNNING, FINISHED):
            return False
        if self._state == PENDING:
            self._state = CANCELLED
            self._sim.obs["done_seq"] = self._sim.obs.get("done_seq", 0) + 1
            self._done_seq = self._sim.obs["done_seq"]
        return True

    def cancelled(self):
        return self._state == CANCELLED

    def running(self):
        return self._state == RUNNING

    def done(self):
        return self._state in (FINISHED, CANCELLED)

    def add_done_callback(self, fn):
        if self.done():
            fn(self)
        else:
            self._callbacks.append(fn)

    def result(self, timeout=None):
        sim = self._sim
        if not self.done():
            sim.block(self.done, f"future {self.fid}.result")
        self._retrieved += 1
        sim.event("future_result", self.fid)
        if self._state == CANCELLED:
            raise CancelledError()
        if self._exception is not None:
            raise self._exception
        return self._result

    def exception(self, timeout=None):
        sim = self._sim
        if not self.done():
            sim.block(self.done, f"future {self.fid}.exception")
        if self._state == CANCELLED:
            raise CancelledError()
        return self._exception

    def set_result(self, r):
        self._finish(result=r)

    def set_exception(self, e):
        self._finish(exception=e)


class _WorkerDied(BaseException):
    """The simulated worker process died while fetching its work item (un-picklable in that process)."""


class _ForkAwareUnpickler(pickle.Unpickler):
    """A worker process knows the classes that existed when it was forked - not the ones defined afterwards."""

    def __init__(self, file, sim, ctx):
        super().__init__(file)
        self._sim, self._ctx = sim, ctx

    def find_class(self, module, name):
        if module == "workload.tasks":
            from workload import tasks as _t
            born = _t.CLASS_BORN.get(name)
            if born is not None and born[0] == self._sim.serial and born[1] > self._ctx.fork_event:
                raise AttributeError(f"Can't get attribute {name!r} on <module {module!r}> (defined after this worker "
                                     f"process was forked)")
        return super().find_class(module, name)


class _WorkItem:
    __slots__ = ("future", "fn", "args", "kwargs", "blob")

    def __init__(self, future, fn, args, kwargs):
        self.future, self.fn, self.args, self.kwargs = future, fn, args, kwargs
        self.blob = None


class _SimExecutorBase:
    kind = "?"

    def __init__(self, max_workers=None, *a, initializer=None, initargs=(), **kw):
        sim = kernel.ACTIVE
        self._sim = sim
        if max_workers is None:
            max_workers = sim.obs.get("cpu_count", 4)
            if self.kind == "thread":
                max_workers = min(32, max_workers + 4)
        # numpy ints happen (np.clip(..., dtype=int)); CPython accepts them
        if max_workers <= 0:
            raise ValueError("max_workers must be greater than 0")
        self._max_workers = int(max_workers)
        self._initializer = initializer
        self._initargs = initargs
        self._queue: deque[_WorkItem] = deque()
        self._workers: list[kernel.SimThread] = []
        self._idle = 0
        self._shutdown = False
        self._broken = False
        self._owner_ctx = sim.cur_ctx()
        sim.obs["pool_seq"] = sim.obs.get("pool_seq", 0) + 1
        self.pid_ = sim.obs["pool_seq"]
        sim.count(f"pools_{self.kind}")
        sim.event("pool_enter", f"{self.kind}:{self._max_workers}")
        self._inflight = 0
        self._submitted = 0

    # context manager
    def __enter__(self):
        return self

    def __exit__(self, et, ev, tb):
        self.shutdown(wait=True)
        return False

    def submit(self, fn, /, *args, **kwargs):
        sim = self._sim
        if self._broken:
            raise BrokenProcessPool("A child process terminated abruptly, the process pool is not usable anymore")
        if self._shutdown:
            raise RuntimeError("cannot schedule new futures after shutdown")
        f = SimFuture(sim)
        item = _WorkItem(f, fn, args, kwargs)
        self._submitted += 1
        sim.event("submit", f"{self.pid_}:{f.fid}")
        self._on_submit(item)
        self._queue.append(item)
        self._ensure_workers()
        sim.yield_point("submit")          # workers may run while the caller keeps submitting
        return f

    def map(self, fn, *iterables, timeout=None, chunksize=1):
        fs = [self.submit(fn, *args) for args in zip(*iterables)]

        def gen():
            try:
                fs.reverse()
                while fs:
                    yield fs.pop().result()
            finally:
                for f in fs:
                    f.cancel()
        return gen()

    def shutdown(self, wait=True, *, cancel_futures=False):
        sim = self._sim
        self._shutdown = True
        if cancel_futures:
            while self._queue:
                self._queue.popleft().future.cancel()
        if wait and not sim.aborting:
            sim.block(lambda: all(w.done for w in self._workers), f"pool {self.pid_} shutdown")
        sim.event("pool_exit", self.pid_)

    # -- worker loop
    def _take_ready(self):
        return bool(self._queue) or self._shutdown or self._broken

    def _worker_loop(self, widx):
        sim = self._sim
        me = sim.cur()
        self._worker_start(me)
        ntasks = 0
        while True:
            self._idle += 1
            sim.block(self._take_ready, f"pool {self.pid_} worker {widx} idle")
            self._idle -= 1
            if self._broken:
                return
            if not self._queue:
                if self._shutdown:
                    return
                continue
            item = self._queue.popleft()
            f = item.future
            if f._state == CANCELLED:
                continue
            f._state = RUNNING
            ntasks += 1
            if ntasks > 1:
                sim.count("worker_reused")
            fp = sim.fault_plan
            if fp is not None and fp.on_task_start(sim, self, me, widx):
                # the worker process died
                self._crash(item)
                return
            sim.event("task_start", f"{self.pid_}:{f.fid}:w{widx}")
            self._inflight += 1
            if self._inflight > 1:
                sim.count("tasks_overlapping")
            try:
                res, exc = self._run_item(item, me)
            except _WorkerDied:
                # CPython: an exception while the worker fetches its call item kills the worker process
                self._crash(item, injected=False)
                return
            finally:
                self._inflight -= 1
            sim.event("task_end", f"{self.pid_}:{f.fid}:w{widx}")
            f._finish(res, exc)
            sim.yield_point("task_end")

    def _crash(self, item, injected=True):
        sim = self._sim
        self._broken = True
        sim.count("fault_fired:worker_crash" if injected else "worker_died_unpickling")
        sim.event("fault" if injected else "worker_died", "worker_crash")
        err = BrokenProcessPool("A process in the process pool was terminated abruptly while the future was "
                                "running or pending.")
        item.future._finish(exception=err)
        while self._queue:
            self._queue.popleft().future._finish(exception=err)


class SimThreadPoolExecutor(_SimExecutorBase):
    kind = "thread"

    def __init__(self, max_workers=None, thread_name_prefix="", initializer=None, initargs=()):
        super().__init__(max_workers, initializer=initializer, initargs=initargs)

    def _on_submit(self, item):
        pass

    def _ensure_workers(self):
        # CPython: spawn a new thread unless an idle one exists, up to max_workers
        if self._idle > 0 and len(self._workers) > 0:
            return
        if len(self._workers) < self._max_workers:
            widx = len(self._workers)
            t = self._sim.spawn(lambda: self._worker_loop(widx), self._owner_ctx, f"p{self.pid_}t{widx}")
            self._workers.append(t)

    def _worker_start(self, me):
        if self._initializer is not None:
            self._initializer(*self._initargs)

    def _run_item(self, item, me):
        try:
            return item.fn(*item.args, **item.kwargs), None
        except kernel.SimAbort:
            raise
        except BaseException as e:
            return None, e


class SimProcessPoolExecutor(_SimExecutorBase):
    kind = "process"

    def __init__(self, max_workers=None, mp_context=None, initializer=None, initargs=(), *, max_tasks_per_child=None):
        super().__init__(max_workers, initializer=initializer, initargs=initargs)
        self._forked = False

    def _on_submit(self, item):
        sim = self._sim
        # the feeder thread pickles some time between submit and dispatch
        if sim.rng_aux.random() < 0.5:
            self._pickle_item(item)

    def _pickle_item(self, item):
        if item.blob is not None:
            return
        try:
            item.blob = pickle.dumps((item.fn, item.args, item.kwargs), protocol=pickle.HIGHEST_PROTOCOL)
            self._sim.count("pickle_bytes", len(item.blob))
        except BaseException as e:
            item.blob = e

    def _ensure_workers(self):
        if self._forked:
            return
        # fork start method: every worker process is created at the first submit and inherits the
        # parent's memory, the state of both global generators included
        self._forked = True
        sim = self._sim
        parent = sim.cur_ctx()
        for widx in range(self._max_workers):
            ctx = sim.fork_ctx(parent, f"pool{self.pid_}w{widx}")
            t = sim.spawn((lambda w: (lambda: self._worker_loop(w)))(widx), ctx, f"p{self.pid_}w{widx}")
            self._workers.append(t)
        sim.count("forks", self._max_workers)

    def _worker_start(self, me):
        if self._initializer is not None:
            try:
                self._initializer(*self._initargs)
                self._sim.count("worker_initializer_runs")
            except BaseException:
                self._broken = True

    def _run_item(self, item, me):
        self._pickle_item(item)
        if isinstance(item.blob, BaseException):
            return None, item.blob
        try:
            import io
            fn, args, kwargs = _ForkAwareUnpickler(io.BytesIO(item.blob), self._sim, me.ctx).load()
        except AttributeError as e:
            if "defined after this worker" in str(e):
                raise _WorkerDied() from e
            return None, e
        except BaseException as e:
            return None, e
        try:
            res = fn(*args, **kwargs)
        except kernel.SimAbort:
            raise
        except BaseException as e:
            try:
                e2 = pickle.loads(pickle.dumps(e))
            except BaseException:
                e2 = RuntimeError(f"unpicklable exception in worker: {e!r}")
            try:
                e2._sim_origin = _origin(e)
            except Exception:
                pass
            return None, e2
        try:
            return pickle.loads(pickle.dumps(res, protocol=pickle.HIGHEST_PROTOCOL)), None
        except BaseException as e:
            return None, e


def _origin(e):
    o = getattr(e, "_sim_origin", None)
    tb, last = e.__traceback__, None
    while tb is not None:
        fn = tb.tb_frame.f_code.co_filename
        if "/pyvolutionary/" in fn:
            last = (fn.split("/pyvolutionary/", 1)[1], tb.tb_frame.f_code.co_name, tb.tb_lineno)
        tb = tb.tb_next
    return o if o is not None else last          # an exception handed up from a nested worker keeps its inner origin


def sim_as_completed(fs, timeout=None):
    sim = kernel.ACTIVE
    # CPython: fs = set(fs); the already finished ones are yielded first, iterating a set of
    # futures, i.e. in address order -> arbitrary; the rest in completion order.
    uniq, seen = [], set()
    for f in fs:
        if id(f) not in seen:
            seen.add(id(f))
            uniq.append(f)
    finished = [f for f in uniq if f.done()]
    pending = [f for f in uniq if not f.done()]
    mode = sim.obs.get("ac_order", "shuffle")
    if len(finished) > 1:
        sim.count("ac_finished_before_call", len(finished))
        if mode == "shuffle":
            sim.rng_aux.shuffle(finished)
        elif mode == "reverse":
            finished.reverse()
    sim.event("as_completed", f"{len(finished)}+{len(pending)}")

    def gen():
        for f in finished:
            yield f
        rest = list(pending)
        while rest:
            sim.block(lambda: any(f.done() for f in rest), "as_completed")
            ready = sorted([f for f in rest if f.done()], key=lambda f: f._done_seq)
            for f in ready:
                rest.remove(f)
            for f in ready:
                yield f
    return gen()


def sim_wait(fs, timeout=None, return_when="ALL_COMPLETED"):
    """concurrent.futures.wait: timeout=0 is a non-blocking snapshot; a positive timeout either elapses first or
    not (there is no simulated clock in the pools: the aux stream decides); None blocks until the condition holds."""
    sim = kernel.ACTIVE
    fs = list(fs)
    if return_when == "FIRST_EXCEPTION":
        cond = lambda: all(f.done() for f in fs) or any(f.done() and f._exception is not None for f in fs)
    elif return_when == "FIRST_COMPLETED":
        cond = lambda: any(f.done() for f in fs)
    else:
        cond = lambda: all(f.done() for f in fs)
    sim.event("wait", f"{len(fs)}:{timeout}")
    if timeout is None:
        sim.block(cond, "wait")
    elif timeout > 0:
        sim.yield_point("wait")
        if not cond() and sim.rng_aux.random() < 0.5:
            sim.block(cond, "wait")
        else:
            sim.count("wait_timeouts")
    else:
        sim.count("wait_snapshots")
    done = {f for f in fs if f.done()}
    return _real_base.DoneAndNotDoneFutures(done, set(fs) - done)


class _Namespace:
    """Stands in for the ``concurrent.futures`` module object."""

    _SIM = {
        "ThreadPoolExecutor": SimThreadPoolExecutor,
        "ProcessPoolExecutor": SimProcessPoolExecutor,
        "as_completed": sim_as_completed,
        "wait": sim_wait,
        "Future": SimFuture,
    }

    def __getattr__(self, name):
        if kernel.ACTIVE is not None and name in self._SIM:
            return self._SIM[name]
        return getattr(_real, name)


NAMESPACE = _Namespace()
