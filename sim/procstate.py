"""Process-private module state: fork semantics for the module-level and class-level data of pyvolutionary.

A real forked worker gets a *copy* of the parent's memory: whatever a module keeps in a global or a class attribute (a
cache, a counter, a private random generator, a pool of executors) starts out equal in every worker and diverges from
then on; nothing a worker does to it is ever seen by the parent or by its siblings.  Simulated worker processes live in
one interpreter, so that state would be *shared* - the simulator would be blind to exactly the defects that only fork
shows (workers replaying a module-level generator, a counter consumed in the child but not in the parent, ...).

Model: at the first fork of a simulation the mutable-state *slots* of the package are discovered - every non-dunder,
non-callable, non-module attribute of every ``pyvolutionary*`` module, and the data attributes of the classes defined
there.  A forked context receives a deep copy (one memo per fork, so aliasing between slots is preserved) of its
parent's slot values; whenever the baton passes to a thread of another context, the running context's values are saved
and the resumed context's values are installed by plain ``setattr``.  On the unchanged tree there is next to nothing to
swap; the cost is two dictionary passes per context change.
"""
from __future__ import annotations

import collections
import copy
import enum
import random as _pyrandom
import sys
import types

import numpy as np
from numpy.random import Generator as _Generator          # the classes themselves (np.random.<name> may be wrapped)
from numpy.random.mtrand import RandomState as _RandomState

_SKIP_TYPES = (types.ModuleType, types.FunctionType, types.BuiltinFunctionType, types.MethodType, type,
               staticmethod, classmethod, property, types.MemberDescriptorType, types.GetSetDescriptorType,
               types.WrapperDescriptorType, types.MethodDescriptorType)
_BY_REF = (int, float, complex, str, bytes, bool, type(None), frozenset, enum.Enum)
_CLASS_DATA = (dict, list, set, bytearray, collections.deque, collections.OrderedDict, collections.defaultdict,
               np.ndarray, _Generator, _RandomState, _pyrandom.Random, int, float, str, bool, type(None))
_OURS = ("sim", "workload", "checks", "selftest")


def _skip_value(val) -> bool:
    if isinstance(val, _SKIP_TYPES):
        return True
    tm = (type(val).__module__ or "").split(".")[0]
    if tm in _OURS or tm in ("typing", "logging", "threading", "_thread", "pydantic", "pydantic_core", "abc",
                             "functools", "concurrent", "multiprocessing", "importlib", "_frozen_importlib"):
        return True
    if callable(val) and not isinstance(val, (_Generator, _RandomState)):
        return True
    return False


import warnings as _warnings

# (owner, name) registered explicitly: user-side module state (by the workload) and the process-global state of the
# standard library that the package can reach - the list of warning filters is per process, and neither fork-shared
# nor thread-safe
EXTRA_SLOTS: list = [(_warnings, "filters")]


def register(owner, name):
    if (owner, name) not in EXTRA_SLOTS:
        EXTRA_SLOTS.append((owner, name))


def discover():
    """[(owner, attribute name)] - the state slots of the package, in a deterministic order."""
    slots = list(EXTRA_SLOTS)
    for mname in sorted(m for m in sys.modules if m == "pyvolutionary" or m.startswith("pyvolutionary.")):
        mod = sys.modules.get(mname)
        if mod is None:
            continue
        for name, val in list(vars(mod).items()):
            if name.startswith("__"):
                continue
            if isinstance(val, type):
                if getattr(val, "__module__", None) != mname or issubclass(val, enum.Enum):
                    continue
                for an, av in list(vars(val).items()):
                    if an.startswith("__") or an.startswith("_abc_") or an.startswith("model_") or an.startswith("_sim"):
                        continue
                    if isinstance(av, _SKIP_TYPES) or not isinstance(av, _CLASS_DATA):
                        continue
                    slots.append((val, an))
                continue
            if _skip_value(val):
                continue
            slots.append((mod, name))
    return slots


def snapshot(slots):
    return {i: getattr(o, n, None) for i, (o, n) in enumerate(slots)}


def fork_copy(values, counter=None):
    """A child's copy of its parent's slot values (deep, one memo: aliasing between slots survives)."""
    memo = {}
    out = {}
    for i, v in values.items():
        if isinstance(v, _BY_REF):
            out[i] = v
            continue
        try:
            out[i] = copy.deepcopy(v, memo)
        except Exception:
            out[i] = v               # not copyable (holds a lock, a file, ...): stays shared
            if counter is not None:
                counter("procstate_uncopyable")
    return out


def install(slots, values):
    for i, (o, n) in enumerate(slots):
        v = values.get(i)
        try:
            if getattr(o, n, None) is not v:
                setattr(o, n, v)
                if o is _warnings:
                    _warnings._filters_mutated()
        except Exception:
            pass
