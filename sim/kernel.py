"""Deterministic simulation kernel.

One ``Sim`` = one simulated execution.  It owns

* the labelled PRNG tree (every choice derives from one integer),
* the event log and its rolling digest,
* the baton-passing scheduler for simulated threads (real Python threads, of
  which exactly one runs at any time; *who* runs next is the simulator's
  decision, never the OS scheduler's),
* the execution contexts (simulated processes: one NumPy ``RandomState`` and
  one stdlib ``random.Random`` each),
* budgets (step cap) and deadlock detection.

Nothing in here reads a real clock or real entropy.
"""
from __future__ import annotations

import hashlib
import random as _stdrandom
import sys
import threading
from typing import Any, Callable

import numpy as np
from numpy.random.mtrand import RandomState as _RealRandomState
from time import monotonic as _real_monotonic          # bound at import: the harness's own clock, never the simulated one

ACTIVE: "Sim | None" = None          # the simulation currently installed in this interpreter
_TLS = threading.local()             # real thread -> SimThread


def H(*parts: Any) -> int:
    """Stable 63-bit hash of a tuple of labels (independent of PYTHONHASHSEED)."""
    h = hashlib.sha256(repr(parts).encode()).digest()
    return int.from_bytes(h[:8], "big") >> 1


class SimAbort(BaseException):
    """Unwinds a parked simulated thread at teardown."""


class SimStepLimit(Exception):
    """The per-run event budget was exhausted."""


class SimDeadlock(Exception):
    """No simulated thread is runnable but somebody is blocked."""


class Ctx:
    """A simulated process: its own global NumPy and stdlib generators."""

    __slots__ = ("pid", "np_rs", "py_rng", "parent", "ndraws", "crashed", "label", "first", "pstate", "fork_event")

    def __init__(self, pid: int, np_state=None, py_state=None, parent: int | None = None, label: str = "main"):
        self.pid = pid
        self.np_rs = _RealRandomState(0)
        if np_state is not None:
            self.np_rs.set_state(np_state)
        self.py_rng = _stdrandom.Random(0)
        if py_state is not None:
            self.py_rng.setstate(py_state)
        self.parent = parent
        self.ndraws = 0
        self.crashed = False
        self.label = label
        self.first: list = []        # digests of this process's first few draws (stream-replay detection)
        self.pstate: dict | None = None   # process-private module / class state of the package (see procstate.py)
        self.fork_event = 0          # logical time at which this process was forked (what it knows = what existed then)


class SimThread:
    __slots__ = ("tid", "name", "ctx", "sem", "done", "cond", "real", "weight", "is_main", "slow", "meta", "nline",
                 "early_point")

    def __init__(self, tid: int, name: str, ctx: Ctx, is_main: bool = False):
        self.tid = tid
        self.name = name
        self.ctx = ctx
        self.sem = threading.Semaphore(0)
        self.done = False
        self.cond: Callable[[], bool] | None = None
        self.real: threading.Thread | None = None
        self.weight = 1.0
        self.is_main = is_main
        self.slow = 0          # >0: deprioritised (objective_slow / stalled_worker faults)
        self.meta: dict = {}
        self.nline = 0         # line events seen by this thread (line granularity)
        self.early_point = 0   # line granularity: one forced switch early in the thread's life (first-use races)


_SIM_SERIAL = [0]


class Sim:
    """One simulated execution."""

    def __init__(self, seed: int, sched: dict | None = None, step_cap: int = 2_000_000, keep_events: int = 0,
                 event_kinds: tuple | None = None):
        self.seed = int(seed)
        _SIM_SERIAL[0] += 1
        self.serial = _SIM_SERIAL[0]
        sched = dict(sched or {})
        self.policy = sched.get("policy", "sticky")
        self.stick_p = float(sched.get("p", 0.9))
        self.rng_sched = _stdrandom.Random(H(self.seed, "sched", sched.get("seed", 0)))
        self.rng_fault = _stdrandom.Random(H(self.seed, "fault"))
        self.rng_aux = _stdrandom.Random(H(self.seed, "aux"))      # pickle timing, as_completed set order
        self.rng_entropy_seed = H(self.seed, "entropy")
        self.replay_decisions = list(sched["decisions"]) if sched.get("decisions") is not None else None
        # pre-emption granularity: "seam" (draws, objective calls, pool operations) or "line" (additionally a
        # bounded number of forced switches at line events inside pyvolutionary frames, via sys.settrace)
        self.granularity = sched.get("granularity", "seam")
        self.nline = 0
        self.line_points: set = set()
        self.early_horizon = int(sched.get("early_horizon", 80))
        self._line_rng = _stdrandom.Random(H(self.seed, "line-early", sched.get("seed", 0)))
        if self.granularity == "line":
            r = _stdrandom.Random(H(self.seed, "line", sched.get("seed", 0)))
            horizon = int(sched.get("line_horizon", 6000))
            self.line_points = set(r.sample(range(1, horizon), min(int(sched.get("preemptions", 4)), horizon - 1)))
        self.decisions: list[int] = []
        self._dec_i = 0

        self.step_cap = step_cap
        self.nevents = 0
        self.step_limit_hit = False
        # wall budget: the event budget does not bound the *time* of a run whose work per event grows (an optimizer whose
        # internal lists grow every cycle); a run cut off here is "budget exhausted" - no verdict - never a violation
        self.wall_cap_s = float(sched.get("wall_cap_s", 100.0))
        self.wall_limit_hit = False
        self._t_start = _real_monotonic()
        self.deadlock = False
        self.aborting = False
        self._digest = hashlib.blake2b(digest_size=16)
        self._sched_digest = hashlib.blake2b(digest_size=8)
        self.keep_events = keep_events
        self.event_kinds = event_kinds
        self.events: list[tuple] = []
        self.counters: dict[str, int] = {}
        self.switches = 0

        self._next_pid = 0
        self._next_tid = 0
        self.ctxs: list[Ctx] = []
        self.threads: list[SimThread] = []
        self.main_ctx = self.new_ctx(label="main")
        self.main: SimThread | None = None
        self.entropy_calls = 0
        self._entropy_by_label: dict = {}
        self.entropy_label: Any = None      # set by engines to give two executions "the same OS entropy"
        # per-run observers (filled by sim.install / engines)
        self.obs: dict[str, Any] = {}
        self.fault_plan: Any = None
        self.rr_last = -1
        # process-private module state (fork semantics), discovered at the first fork
        self.pslots: list | None = None
        self._installed_ctx: Ctx | None = None

    # ------------------------------------------------------------------ contexts
    def new_ctx(self, np_state=None, py_state=None, parent: int | None = None, label: str = "main") -> Ctx:
        c = Ctx(self._next_pid, np_state, py_state, parent, label)
        self._next_pid += 1
        self.ctxs.append(c)
        if np_state is None:
            # a brand-new process: ambient generator state is arbitrary but a function of the seed
            c.np_rs.seed(H(self.seed, "ambient-np", c.pid) % (2 ** 32))
            c.py_rng.seed(H(self.seed, "ambient-py", c.pid))
        return c

    def fork_ctx(self, parent: Ctx, label: str) -> Ctx:
        c = self.new_ctx(parent.np_rs.get_state(), parent.py_rng.getstate(), parent.pid, label)
        # the child gets a copy of the parent's memory: module-level and class-level state of the package included
        from . import procstate
        if self.pslots is None:
            self.pslots = procstate.discover()
            self._installed_ctx = self.cur_ctx()
            self.count("procstate_slots", len(self.pslots))
        if self.pslots:
            if self._installed_ctx is parent or parent.pstate is None:
                parent.pstate = procstate.snapshot(self.pslots)
            c.pstate = procstate.fork_copy(parent.pstate, self.count)
        self.event("fork", f"{parent.pid}->{c.pid}")
        c.fork_event = self.nevents
        return c

    def _ctx_resume(self, t: "SimThread | None"):
        """The baton reached a thread: make its process's private module state the live one."""
        if not self.pslots or t is None:
            return
        ctx = t.ctx
        cur = self._installed_ctx
        if cur is ctx:
            return
        from . import procstate
        if cur is not None:
            cur.pstate = procstate.snapshot(self.pslots)
        if ctx.pstate is None:
            ctx.pstate = procstate.snapshot(self.pslots)      # a context that never forked shares what is live now
        procstate.install(self.pslots, ctx.pstate)
        self._installed_ctx = ctx
        self.count("procstate_swaps")

    def entropy(self) -> int:
        """What ``np.random.seed(None)`` 'reads from the OS' (32 bit)."""
        n = self.entropy_calls
        self.entropy_calls += 1
        if self.entropy_label is None:
            label = ("call", n)
        else:
            # two executions given the same label read the same *sequence* of entropy values (the k-th read under a
            # label is a function of (label, k)), but successive reads differ - e.g. the reseeding of pool workers
            k = self._entropy_by_label.get(repr(self.entropy_label), 0)
            self._entropy_by_label[repr(self.entropy_label)] = k + 1
            label = ("label", repr(self.entropy_label), k)
        return H(self.rng_entropy_seed, label) % (2 ** 32)

    # ------------------------------------------------------------------ log
    def count(self, name: str, k: int = 1):
        self.counters[name] = self.counters.get(name, 0) + k

    def event(self, kind: str, detail: Any = ""):
        """Append to the event log.  Never draws from a PRNG, never reads a clock."""
        self.nevents += 1
        t = self.cur()
        pid = t.ctx.pid if t is not None else -1
        self._digest.update(f"{kind}|{pid}|{detail}\n".encode())
        if self.keep_events and (self.event_kinds is None or kind in self.event_kinds):
            if len(self.events) < self.keep_events:
                self.events.append((self.nevents, pid, t.tid if t else -1, kind, detail))
        if self.nevents > self.step_cap and not self.aborting:
            self.step_limit_hit = True
            raise SimStepLimit(f"step cap {self.step_cap} exceeded")
        if (self.nevents & 2047) == 0 and not self.aborting and _real_monotonic() - self._t_start > self.wall_cap_s:
            self.step_limit_hit = True
            self.wall_limit_hit = True
            raise SimStepLimit(f"wall budget {self.wall_cap_s:.0f}s exceeded")

    def digest(self) -> str:
        return self._digest.hexdigest()

    def sched_digest(self) -> str:
        return self._sched_digest.hexdigest()

    # ------------------------------------------------------------------ threads
    def cur(self) -> SimThread | None:
        return getattr(_TLS, "t", None)

    def cur_ctx(self) -> Ctx:
        t = getattr(_TLS, "t", None)
        return t.ctx if t is not None else self.main_ctx

    def adopt_main(self):
        """Make the calling real thread the main simulated thread."""
        t = SimThread(self._next_tid, "main", self.main_ctx, is_main=True)
        self._next_tid += 1
        t.real = threading.current_thread()
        self.threads.append(t)
        self.main = t
        _TLS.t = t
        if self.granularity == "line":
            sys.settrace(self._tracer)
        return t

    def release_main(self):
        if self.granularity == "line":
            sys.settrace(None)
        _TLS.t = None

    # ------------------------------------------------------------------ line-granularity pre-emption
    def _tracer(self, frame, event, arg):
        if event == "call" and "/pyvolutionary/" in frame.f_code.co_filename:
            return self._line_tracer
        return None

    def _line_tracer(self, frame, event, arg):
        if event == "line" and not self.aborting and len(self.threads) > 1:
            self.nline += 1
            cur = self.cur()
            if cur is not None and not cur.is_main:
                cur.nline += 1
                if cur.nline == cur.early_point:
                    self.count("early_line_preemptions")
                    self.force_preempt(f"early:{frame.f_code.co_name}:{frame.f_lineno}")
                    return self._line_tracer
            if self.nline in self.line_points:
                if cur is not None:
                    others = [t for t in self._runnable() if t is not cur]
                    if others:
                        nxt = others[self.rng_sched.randrange(len(others))]
                        self.count("line_preemptions")
                        self._sched_digest.update(b"L" + bytes([nxt.tid & 0xFF]))
                        self.event("preempt", f"{frame.f_code.co_name}:{frame.f_lineno}")
                        self._switch(cur, nxt)
        return self._line_tracer

    def spawn(self, fn: Callable[[], None], ctx: Ctx, name: str) -> SimThread:
        """Create a parked simulated thread; it runs only when the scheduler picks it."""
        t = SimThread(self._next_tid, name, ctx)
        self._next_tid += 1
        self.threads.append(t)
        if self.granularity == "line":
            t.early_point = self._line_rng.randrange(1, self.early_horizon + 1)

        def body():
            _TLS.t = t
            t.sem.acquire()
            try:
                if not self.aborting:
                    self._ctx_resume(t)
                    if self.granularity == "line":
                        sys.settrace(self._tracer)
                    fn()
            except SimAbort:
                pass
            except BaseException as e:  # a worker loop must never die silently
                self.obs.setdefault("thread_crashes", []).append((name, repr(e)))
            finally:
                t.done = True
                _TLS.t = None
                if not self.aborting:
                    self._handoff_from_finished(t)

        rt = threading.Thread(target=body, name=f"sim-{name}", daemon=True)
        t.real = rt
        rt.start()
        return t

    def _runnable(self) -> list[SimThread]:
        out = []
        for t in self.threads:
            if t.done:
                continue
            if t.cond is None or t.cond():
                out.append(t)
        return out

    def _choose(self, cur: SimThread | None, runnable: list[SimThread]) -> SimThread:
        if len(runnable) == 1:
            return runnable[0]
        # replay
        if self.replay_decisions is not None:
            if self._dec_i < len(self.replay_decisions):
                k = self.replay_decisions[self._dec_i] % len(runnable)
            else:
                k = 0
            self._dec_i += 1
            self.decisions.append(k)
            self._sched_digest.update(bytes([k & 0xFF]))
            return runnable[k]
        r = self.rng_sched
        # deprioritised threads only run when nothing else can
        fast = [t for t in runnable if t.slow <= 0]
        if fast and len(fast) < len(runnable):
            for t in runnable:
                if t.slow > 0:
                    t.slow -= 1
            cand = fast
        else:
            cand = runnable
        pol = self.policy
        if pol == "sticky":
            if cur is not None and cur in cand and r.random() < self.stick_p:
                pick = cur
            else:
                pick = cand[r.randrange(len(cand))]
        elif pol == "uniform":
            pick = cand[r.randrange(len(cand))]
        elif pol == "roundrobin":
            later = [t for t in cand if t.tid > self.rr_last]
            pick = later[0] if later else cand[0]
            self.rr_last = pick.tid
        elif pol == "skewed":
            ws = [t.weight for t in cand]
            pick = r.choices(cand, weights=ws, k=1)[0]
        elif pol == "fifo":      # lowest id first: the minimiser's "no scheduling" default
            pick = cand[0]
        elif pol == "lifo":
            pick = cand[-1]
        else:
            raise ValueError(pol)
        k = runnable.index(pick)
        self.decisions.append(k)
        self._sched_digest.update(bytes([k & 0xFF]))
        return pick

    def yield_point(self, why: str = ""):
        """Pre-emption point: the scheduler may hand the baton to another thread."""
        cur = self.cur()
        if cur is None or self.aborting:
            return
        if len(self.threads) == 1:
            return
        runnable = self._runnable()
        if not runnable:
            return
        nxt = self._choose(cur, runnable)
        if nxt is cur:
            return
        self._switch(cur, nxt)

    def force_preempt(self, why: str = "", slow: int = 4):
        """Directed pre-emption: park the running (non-main) thread right here, deprioritised for a few scheduler
        decisions, and let another runnable thread proceed.  Used right after a pooled task wrote to an object it
        shares with other threads - the start of a potential race window."""
        cur = self.cur()
        if cur is None or self.aborting or len(self.threads) < 2:
            return False
        others = [t for t in self._runnable() if t is not cur]
        if not others:
            return False
        nxt = others[self.rng_sched.randrange(len(others))]
        cur.slow = max(cur.slow, slow)
        self.count("forced_preemptions")
        self._sched_digest.update(b"F" + bytes([nxt.tid & 0xFF]))
        self.event("preempt", why)
        self._switch(cur, nxt)
        return True

    def block(self, cond: Callable[[], bool], why: str = ""):
        """Park the caller until ``cond()`` holds (and the scheduler picks it)."""
        cur = self.cur()
        if cur is None:
            if not cond():
                raise SimDeadlock(f"blocking outside a simulated thread: {why}")
            return
        cur.cond = cond
        try:
            while True:
                if self.aborting:
                    raise SimAbort()
                runnable = self._runnable()
                if not runnable:
                    self.deadlock = True
                    self.event("deadlock", why)
                    if cur.is_main:
                        raise SimDeadlock(why)
                    # wake main so that it can report
                    self._switch(cur, self.main, deadlock=True)
                    continue
                nxt = self._choose(cur, runnable)
                if nxt is cur:
                    return
                self._switch(cur, nxt)
                if self.deadlock and cur.is_main:
                    raise SimDeadlock(why)
                if cond():
                    # we were picked by someone who saw our condition hold
                    return
        finally:
            cur.cond = None

    def _switch(self, cur: SimThread, nxt: SimThread, deadlock: bool = False):
        self.switches += 1
        nxt.sem.release()
        cur.sem.acquire()
        if self.aborting and not cur.is_main:
            raise SimAbort()
        self._ctx_resume(cur)

    def _handoff_from_finished(self, t: SimThread):
        runnable = self._runnable()
        if runnable:
            nxt = self._choose(None, runnable)
            self.switches += 1
            nxt.sem.release()
            return
        # nobody runnable: if someone is blocked this is a deadlock -> wake main to report it
        alive = [x for x in self.threads if not x.done]
        if alive:
            self.deadlock = True
            if self.main is not None and not self.main.done:
                self.main.sem.release()

    def teardown(self):
        """Unwind every parked simulated thread.  Called by the main thread when the run is over."""
        self.aborting = True
        # back to the parent process's view of the package's module state
        try:
            self._ctx_resume(self.main)
        except Exception:
            pass
        for t in self.threads:
            if t.is_main or t.done:
                continue
            t.sem.release()
        for t in self.threads:
            if t.is_main or t.real is None:
                continue
            t.real.join(timeout=5)
        self.release_main()
