"""Fault plan: what the environment does to one run (see DESIGN §4).

A plan is a list of JSON-able dicts; it is part of the scenario descriptor, so
a replay file carries it explicitly.  Every kind counts how often it actually
*fired*.
"""
from __future__ import annotations

import numpy as np

_UNIT = {"random", "random_sample", "ranf", "sample", "rand"}
_ONE_M = 1.0 - 2.0 ** -53


class InjectedObjectiveFault(RuntimeError):
    """The user's objective function failed (injected)."""


# user code fails with whatever exception type it likes: the injected failure may be any of these (plain built-in /
# stdlib types, recognised by their message), so that library code that catches *some* exception types around a pooled
# or serial evaluation (a "graceful fallback") is exercised with exactly those types
EXC_TYPES = ["TypeError", "AttributeError", "ValueError", "KeyError", "IndexError", "ZeroDivisionError",
             "PicklingError", "OSError", "ArithmeticError", "AssertionError", "StopIteration"]
# (StopIteration: `next()` on an exhausted data source inside the objective.  Inside a generator Python turns it into
#  RuntimeError("generator raised StopIteration") with the original as __cause__, which is_injected() follows.)


def make_injected(n, exc=None):
    msg = f"injected failure of objective evaluation #{n}"
    if not exc or exc == "RuntimeError":
        return InjectedObjectiveFault(msg)
    if exc == "PicklingError":
        import pickle
        return pickle.PicklingError(msg)
    import builtins
    return getattr(builtins, exc)(msg)


def is_injected(e) -> bool:
    """Is ``e`` (or an exception it was raised from / while handling) the injected objective failure?"""
    seen = 0
    while e is not None and seen < 8:
        if isinstance(e, InjectedObjectiveFault) or "injected failure of objective" in str(e):
            return True
        e = e.__cause__ or e.__context__
        seen += 1
    return False


class FaultPlan:
    def __init__(self, faults):
        self.faults = [dict(f) for f in (faults or [])]
        self.windows = [f for f in self.faults if f["kind"] in ("stream_bias_low", "stream_bias_high",
                                                                 "index_extreme", "index_repeat")]
        self.raise_at = sorted(f["at"] for f in self.faults if f["kind"] == "objective_raise")
        self.raise_exc = {f["at"]: f.get("exc") for f in self.faults if f["kind"] == "objective_raise"}
        self.slow = [f for f in self.faults if f["kind"] == "objective_slow"]
        self.stalled = {f["widx"]: f for f in self.faults if f["kind"] == "stalled_worker"}
        self.crash_at = [f["at_task"] for f in self.faults if f["kind"] == "worker_crash"]
        self.scribble = any(f["kind"] == "objective_scribbles" for f in self.faults)
        # evaluations of good points take long (a simulation that converges slowly near the optimum): in pooled modes the
        # best candidate of a batch completes last
        self.slow_good = any(f["kind"] == "objective_slow_good" for f in self.faults)
        self.best_seen = None
        self.ndraw = 0
        self.ntask = 0
        self.last_int = None

    def setup(self, sim):
        for f in self.faults:
            if f["kind"] == "ac_order":
                sim.obs["ac_order"] = f["mode"]
                sim.count("fault_fired:ac_order")

    # ---------------------------------------------------------------- random streams
    def on_draw(self, sim, ctx, name, a, k, v):
        self.ndraw += 1
        n = self.ndraw
        for f in self.windows:
            if not (f["start"] <= n < f["start"] + f["len"]):
                continue
            kind = f["kind"]
            if kind in ("stream_bias_low", "stream_bias_high"):
                if name in _UNIT:
                    v = self._warp(v, kind)
                    sim.count("fault_fired:" + kind)
                elif name == "uniform":
                    lo = a[0] if len(a) > 0 else k.get("low", 0.0)
                    hi = a[1] if len(a) > 1 else k.get("high", 1.0)
                    try:
                        lo_a, hi_a = np.asarray(lo, dtype=float), np.asarray(hi, dtype=float)
                        span = hi_a - lo_a
                        if np.all(np.isfinite(span)) and np.all(span > 0):
                            u = (np.asarray(v, dtype=float) - lo_a) / span
                            u = np.clip(u, 0.0, _ONE_M)
                            w = self._warp(u, kind)
                            nv = lo_a + w * span
                            nv = np.minimum(np.maximum(nv, lo_a), hi_a)
                            v = float(nv) if np.ndim(v) == 0 and not isinstance(v, np.ndarray) else nv
                            sim.count("fault_fired:" + kind)
                    except Exception:
                        pass
            elif kind == "index_extreme" and name == "randint" and k.get("size") is None and len(a) <= 2 \
                    and "dtype" not in k:
                try:
                    low = a[0] if len(a) > 0 else k.get("low")
                    high = a[1] if len(a) > 1 else k.get("high")
                    if high is None:
                        low, high = 0, low
                    if np.ndim(low) == 0 and np.ndim(high) == 0 and int(high) > int(low):
                        nv = int(low) if f.get("which", "first") == "first" else int(high) - 1
                        v = type(v)(nv) if not isinstance(v, np.ndarray) else v
                        sim.count("fault_fired:index_extreme")
                except Exception:
                    pass
            elif kind == "index_repeat" and name == "randint" and k.get("size") is None and len(a) <= 2:
                try:
                    low = a[0] if len(a) > 0 else k.get("low")
                    high = a[1] if len(a) > 1 else k.get("high")
                    if high is None:
                        low, high = 0, low
                    if self.last_int is not None and np.ndim(low) == 0 and np.ndim(high) == 0 \
                            and int(low) <= self.last_int < int(high):
                        v = type(v)(self.last_int)
                        sim.count("fault_fired:index_repeat")
                except Exception:
                    pass
        if name == "randint" and np.ndim(v) == 0:
            try:
                self.last_int = int(v)
            except Exception:
                pass
        return v

    @staticmethod
    def _warp(u, kind):
        if kind == "stream_bias_low":
            w = np.asarray(u, dtype=float) ** 4
        else:
            w = 1.0 - (1.0 - np.asarray(u, dtype=float)) ** 4
            w = np.minimum(w, _ONE_M)
        if np.ndim(u) == 0 and not isinstance(u, np.ndarray):
            return float(w)
        return w

    # ---------------------------------------------------------------- objective
    def on_obj_call(self, sim, n):
        """n = 1-based global index of this objective evaluation."""
        for f in self.slow:
            if n % f["every"] == f.get("phase", 0) % f["every"]:
                t = sim.cur()
                if t is not None and len(sim.threads) > 1:
                    t.slow = f.get("slow", 5)
                    sim.count("fault_fired:objective_slow")
        if self.raise_at and n in self.raise_at:
            sim.count("fault_fired:objective_raise")
            sim.event("fault", f"objective_raise@{n}")
            raise make_injected(n, getattr(self, "raise_exc", {}).get(n))

    def on_obj_value(self, sim, val, maximise):
        """Called with the value the objective is about to return."""
        if not self.slow_good or len(sim.threads) < 2:
            return
        try:
            v = float(sum(val)) if isinstance(val, (list, tuple)) else float(val)
        except Exception:
            return
        if v != v:
            return
        v = -v if maximise else v
        if self.best_seen is None or v < self.best_seen:
            self.best_seen = v
            t = sim.cur()
            if t is not None and not t.is_main:
                t.slow = 1_000_000
                sim.count("fault_fired:objective_slow_good")

    # ---------------------------------------------------------------- pools
    def on_task_start(self, sim, pool, thread, widx) -> bool:
        self.ntask += 1
        st = self.stalled.get(widx)
        if st is not None and len(sim.threads) > 1:
            thread.slow = st.get("slow", 8)
            sim.count("fault_fired:stalled_worker")
        if pool.kind == "process" and self.ntask in self.crash_at:
            return True
        return False
