"""RNG seam (N1, N2): numpy.random legacy module functions and stdlib random.

For the lifetime of the checking process the module-level functions are
replaced by wrappers.  Without an active simulation they delegate to the
originals.  Inside a simulation a wrapper is a pre-emption point, dispatches to
the *current context's* generator, optionally applies a stream fault, and logs
the draw.
"""
from __future__ import annotations

import random as _pyrandom
import zlib

import numpy as np
from numpy.random.mtrand import RandomState as _RealRandomState

from . import kernel

_ORIG_NP: dict = {}
_ORIG_PY: dict = {}
_INSTALLED = False

# every legacy module-level function that is a method of RandomState
_NP_NAMES = [
    "random", "random_sample", "ranf", "sample", "rand", "randn", "randint", "random_integers", "uniform",
    "normal", "standard_normal", "choice", "permutation", "shuffle", "exponential", "standard_exponential",
    "beta", "gamma", "standard_gamma", "binomial", "poisson", "lognormal", "laplace", "logistic", "triangular",
    "weibull", "pareto", "power", "rayleigh", "standard_cauchy", "standard_t", "chisquare", "geometric",
    "multinomial", "multivariate_normal", "dirichlet", "vonmises", "wald", "zipf", "gumbel", "f", "bytes",
    "negative_binomial", "noncentral_chisquare", "noncentral_f", "hypergeometric", "logseries",
]
_PY_NAMES = [
    "random", "randint", "randrange", "uniform", "choice", "choices", "shuffle", "sample", "gauss", "normalvariate",
    "getrandbits", "triangular", "betavariate", "expovariate", "gammavariate", "lognormvariate", "vonmisesvariate",
    "paretovariate", "weibullvariate", "randbytes",
]
_UNIT = {"random", "random_sample", "ranf", "sample", "rand"}
_INDEX = {"randint", "choice"}


def _val_digest(v) -> str:
    try:
        if isinstance(v, np.ndarray):
            return f"a{v.shape}:{zlib.crc32(np.ascontiguousarray(v).tobytes()):08x}"
        if isinstance(v, (float, np.floating)):
            return float(v).hex()
        return repr(v)
    except Exception:
        return "?"


def _np_wrapper(name):
    orig = _ORIG_NP[name]

    def w(*a, **k):
        sim = kernel.ACTIVE
        if sim is None or sim.aborting:
            return orig(*a, **k)
        sim.yield_point("draw")
        ctx = sim.cur_ctx()
        v = getattr(ctx.np_rs, name)(*a, **k)
        ctx.ndraws += 1
        fp = sim.fault_plan
        if fp is not None:
            v = fp.on_draw(sim, ctx, name, a, k, v)
        dg = f"{name}:{_val_digest(v)}"
        if len(ctx.first) < 3:
            ctx.first.append(dg)
        sim.event("draw", dg)
        return v

    w.__name__ = name
    w.__qualname__ = f"simrng.{name}"
    return w


def _np_seed(seed=None):
    sim = kernel.ACTIVE
    if sim is None or sim.aborting:
        return _ORIG_NP["seed"](seed)
    ctx = sim.cur_ctx()
    if seed is None:
        s = sim.entropy()
        ctx.np_rs.seed(s)
        sim.event("seed", f"entropy:{s}")
    else:
        ctx.np_rs.seed(seed)          # raises exactly what numpy raises (TypeError for a float, ...)
        sim.event("seed", f"user:{seed!r}")
    sim.count("np_seed_calls")


def _np_get_state(*a, **k):
    sim = kernel.ACTIVE
    if sim is None:
        return _ORIG_NP["get_state"](*a, **k)
    return sim.cur_ctx().np_rs.get_state(*a, **k)


def _np_set_state(state):
    sim = kernel.ACTIVE
    if sim is None:
        return _ORIG_NP["set_state"](state)
    sim.event("set_state", "")
    return sim.cur_ctx().np_rs.set_state(state)


def _py_wrapper(name):
    orig = _ORIG_PY[name]

    def w(*a, **k):
        sim = kernel.ACTIVE
        if sim is None or sim.aborting:
            return orig(*a, **k)
        sim.yield_point("pydraw")
        ctx = sim.cur_ctx()
        v = getattr(ctx.py_rng, name)(*a, **k)
        ctx.ndraws += 1
        sim.count("stdlib_random_draws")
        sim.event("pydraw", f"{name}:{v!r}")
        return v

    w.__name__ = name
    return w


def _py_seed(a=None, version=2):
    sim = kernel.ACTIVE
    if sim is None:
        return _ORIG_PY["seed"](a, version)
    ctx = sim.cur_ctx()
    if a is None:
        a = sim.entropy()
    ctx.py_rng.seed(a, version)
    sim.event("pyseed", repr(a))


# ------------------------------------------------------------------ other sources of entropy
# Generators constructed without a seed, os.urandom and wall-clock reads made from package code take their value from
# the simulator's entropy stream / logical clock: one VERIF_SEED stays one execution whatever source the library uses,
# and "the same OS entropy" can be given to two executions whichever way they read it.
_ORIG_OTHER: dict = {}


def _from_package(depth=2) -> bool:
    import sys
    f = sys._getframe(depth)
    for _ in range(6):
        if f is None:
            return False
        if "/pyvolutionary/" in f.f_code.co_filename:
            return True
        f = f.f_back
    return False


def _entropy_ctor(name):
    orig = _ORIG_OTHER[name]

    def ctor(seed=None, *a, **k):
        sim = kernel.ACTIVE
        if sim is not None and not sim.aborting and seed is None:
            seed = sim.entropy()
            sim.count("other_generators_seeded_from_entropy")
            sim.event("seed", f"{name}:entropy:{seed}")
        elif sim is not None and not sim.aborting:
            sim.event("seed", f"{name}:user")
        return orig(seed, *a, **k)

    ctor.__name__ = name
    ctor.__qualname__ = f"simrng.{name}"
    ctor.__wrapped__ = orig
    return ctor


class SimRandomState(_RealRandomState):
    """np.random.RandomState() without a seed reads the simulator's entropy inside a simulation (pickles / deep-copies
    as a plain RandomState with the same state)."""

    def __init__(self, seed=None):
        sim = kernel.ACTIVE
        if seed is None and sim is not None and not sim.aborting:
            seed = sim.entropy()
            sim.count("other_generators_seeded_from_entropy")
        super().__init__(seed)


class SimRandom(_pyrandom.Random):
    """random.Random() without a seed reads the simulator's entropy inside a simulation."""

    def __init__(self, x=None):
        sim = kernel.ACTIVE
        if x is None and sim is not None and not sim.aborting:
            x = sim.entropy()
            sim.count("other_generators_seeded_from_entropy")
        super().__init__(x)

    def seed(self, a=None, version=2):
        sim = kernel.ACTIVE
        if a is None and sim is not None and not sim.aborting:
            a = sim.entropy()
        super().seed(a, version)


def _urandom(n):
    sim = kernel.ACTIVE
    if sim is None or sim.aborting or not _from_package():
        return _ORIG_OTHER["urandom"](n)
    sim.count("urandom_reads_from_package")
    r = _pyrandom.Random(sim.entropy())
    return bytes(r.getrandbits(8) for _ in range(n))


def _clock(name, scale, integer):
    orig = _ORIG_OTHER[name]

    def read():
        sim = kernel.ACTIVE
        if sim is None or sim.aborting or not _from_package():
            return orig()
        # a wall clock read by package code: logical time (monotone, a function of the event count)
        sim.count("clock_reads_from_package")
        v = (1_760_000_000 + sim.nevents * 1e-3) * scale
        return int(v) if integer else v

    read.__name__ = name
    return read


def _install_other():
    import os
    import time
    # default_rng is a function: wrapped by a function.  The generator *classes* stay classes (NumPy itself does
    # isinstance checks against np.random.<Class>): RandomState is replaced by a subclass; the bit generators and
    # SeedSequence constructed directly without a seed are not intercepted (a run that does so shows up as a
    # non-reproducible digest, i.e. a HARNESS-ERROR, never as a verdict)
    _ORIG_OTHER["default_rng"] = np.random.default_rng
    np.random.default_rng = _entropy_ctor("default_rng")
    _ORIG_OTHER["RandomState"] = np.random.RandomState
    np.random.RandomState = SimRandomState
    _ORIG_OTHER["Random"] = _pyrandom.Random
    _pyrandom.Random = SimRandom
    _ORIG_OTHER["urandom"] = os.urandom
    os.urandom = _urandom
    for n, scale, integer in (("time", 1.0, False), ("time_ns", 1e9, True), ("perf_counter", 1.0, False),
                              ("perf_counter_ns", 1e9, True), ("monotonic", 1.0, False), ("monotonic_ns", 1e9, True)):
        _ORIG_OTHER[n] = getattr(time, n)
        setattr(time, n, _clock(n, scale, integer))


def install():
    global _INSTALLED
    if _INSTALLED:
        return
    _INSTALLED = True
    _install_other()
    for n in _NP_NAMES:
        if hasattr(np.random, n) and hasattr(_RealRandomState, n):
            _ORIG_NP[n] = getattr(np.random, n)
    for n in ("seed", "get_state", "set_state"):
        _ORIG_NP[n] = getattr(np.random, n)
    for n in list(_ORIG_NP):
        if n in ("seed", "get_state", "set_state"):
            continue
        setattr(np.random, n, _np_wrapper(n))
    np.random.seed = _np_seed
    np.random.get_state = _np_get_state
    np.random.set_state = _np_set_state
    for n in _PY_NAMES:
        if hasattr(_pyrandom, n):
            _ORIG_PY[n] = getattr(_pyrandom, n)
            setattr(_pyrandom, n, _py_wrapper(n))
    _ORIG_PY["seed"] = _pyrandom.seed
    _pyrandom.seed = _py_seed
