"""RNG seam (N1, N2): numpy.random legacy module functions and stdlib random.

For the lifetime of the checking process the module-level functions are
replaced by wrappers.  Without an active simulation they delegate to the
originals.  Inside a simulation a wrapper is a pre-emption point, dispatches to
the *current context's* generator, optionally applies a stream fault, and logs
the draw.
"""
from __future__ import annotations

import random as _pyrandom
import zlib

import numpy as np

from . import kernel

_ORIG_NP: dict = {}
_ORIG_PY: dict = {}
_INSTALLED = False

# every legacy module-level function that is a method of RandomState
_NP_NAMES = [
    "random", "random_sample", "ranf", "sample", "rand", "randn", "randint", "random_integers", "uniform",
    "normal", "standard_normal", "choice", "permutation", "shuffle", "exponential", "standard_exponential",
    "beta", "gamma", "standard_gamma", "binomial", "poisson", "lognormal", "laplace", "logistic", "triangular",
    "weibull", "pareto", "power", "rayleigh", "standard_cauchy", "standard_t", "chisquare", "geometric",
    "multinomial", "multivariate_normal", "dirichlet", "vonmises", "wald", "zipf", "gumbel", "f", "bytes",
    "negative_binomial", "noncentral_chisquare", "noncentral_f", "hypergeometric", "logseries",
]
_PY_NAMES = [
    "random", "randint", "randrange", "uniform", "choice", "choices", "shuffle", "sample", "gauss", "normalvariate",
    "getrandbits", "triangular", "betavariate", "expovariate", "gammavariate", "lognormvariate", "vonmisesvariate",
    "paretovariate", "weibullvariate", "randbytes",
]
_UNIT = {"random", "random_sample", "ranf", "sample", "rand"}
_INDEX = {"randint", "choice"}


def _val_digest(v) -> str:
    try:
        if isinstance(v, np.ndarray):
            return f"a{v.shape}:{zlib.crc32(np.ascontiguousarray(v).tobytes()):08x}"
        if isinstance(v, (float, np.floating)):
            return float(v).hex()
        return repr(v)
    except Exception:
        return "?"


def _np_wrapper(name):
    orig = _ORIG_NP[name]

    def w(*a, **k):
        sim = kernel.ACTIVE
        if sim is None or sim.aborting:
            return orig(*a, **k)
        sim.yield_point("draw")
        ctx = sim.cur_ctx()
        v = getattr(ctx.np_rs, name)(*a, **k)
        ctx.ndraws += 1
        fp = sim.fault_plan
        if fp is not None:
            v = fp.on_draw(sim, ctx, name, a, k, v)
        dg = f"{name}:{_val_digest(v)}"
        if len(ctx.first) < 3:
            ctx.first.append(dg)
        sim.event("draw", dg)
        return v

    w.__name__ = name
    w.__qualname__ = f"simrng.{name}"
    return w


def _np_seed(seed=None):
    sim = kernel.ACTIVE
    if sim is None or sim.aborting:
        return _ORIG_NP["seed"](seed)
    ctx = sim.cur_ctx()
    if seed is None:
        s = sim.entropy()
        ctx.np_rs.seed(s)
        sim.event("seed", f"entropy:{s}")
    else:
        ctx.np_rs.seed(seed)          # raises exactly what numpy raises (TypeError for a float, ...)
        sim.event("seed", f"user:{seed!r}")
    sim.count("np_seed_calls")


def _np_get_state(*a, **k):
    sim = kernel.ACTIVE
    if sim is None:
        return _ORIG_NP["get_state"](*a, **k)
    return sim.cur_ctx().np_rs.get_state(*a, **k)


def _np_set_state(state):
    sim = kernel.ACTIVE
    if sim is None:
        return _ORIG_NP["set_state"](state)
    sim.event("set_state", "")
    return sim.cur_ctx().np_rs.set_state(state)


def _py_wrapper(name):
    orig = _ORIG_PY[name]

    def w(*a, **k):
        sim = kernel.ACTIVE
        if sim is None or sim.aborting:
            return orig(*a, **k)
        sim.yield_point("pydraw")
        ctx = sim.cur_ctx()
        v = getattr(ctx.py_rng, name)(*a, **k)
        ctx.ndraws += 1
        sim.count("stdlib_random_draws")
        sim.event("pydraw", f"{name}:{v!r}")
        return v

    w.__name__ = name
    return w


def _py_seed(a=None, version=2):
    sim = kernel.ACTIVE
    if sim is None:
        return _ORIG_PY["seed"](a, version)
    ctx = sim.cur_ctx()
    if a is None:
        a = sim.entropy()
    ctx.py_rng.seed(a, version)
    sim.event("pyseed", repr(a))


def install():
    global _INSTALLED
    if _INSTALLED:
        return
    _INSTALLED = True
    for n in _NP_NAMES:
        if hasattr(np.random, n) and hasattr(np.random.RandomState, n):
            _ORIG_NP[n] = getattr(np.random, n)
    for n in ("seed", "get_state", "set_state"):
        _ORIG_NP[n] = getattr(np.random, n)
    for n in list(_ORIG_NP):
        if n in ("seed", "get_state", "set_state"):
            continue
        setattr(np.random, n, _np_wrapper(n))
    np.random.seed = _np_seed
    np.random.get_state = _np_get_state
    np.random.set_state = _np_set_state
    for n in _PY_NAMES:
        if hasattr(_pyrandom, n):
            _ORIG_PY[n] = getattr(_pyrandom, n)
            setattr(_pyrandom, n, _py_wrapper(n))
    _ORIG_PY["seed"] = _pyrandom.seed
    _pyrandom.seed = _py_seed
