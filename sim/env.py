"""Clock, machine size (N6, N8): module attributes `datetime` and `os` of
pyvolutionary.hypertuner / pyvolutionary.multitask are replaced by these proxies.
Without an active simulation they behave like the real thing."""
from __future__ import annotations

import datetime as _dt
import os as _os

from . import kernel


class _OsProxy:
    def __getattr__(self, name):
        return getattr(_os, name)

    @staticmethod
    def cpu_count():
        sim = kernel.ACTIVE
        if sim is not None and "cpu_count" in sim.obs:
            sim.count("cpu_count_reads")
            return sim.obs["cpu_count"]
        return _os.cpu_count()


class SimClock:
    """Simulated wall clock: a list of (advance in seconds) decisions taken at each read."""

    def __init__(self, start: _dt.datetime, plan):
        self.now = start
        self.plan = list(plan)          # seconds to advance *before* each read (0 = frozen, negative = jump back)
        self.reads = 0

    def read(self):
        adv = self.plan[self.reads % len(self.plan)] if self.plan else 1
        self.reads += 1
        self.now = self.now + _dt.timedelta(seconds=adv)
        return self.now


class _DatetimeProxy:
    """Stands in for the `datetime` class imported by `from datetime import datetime`."""

    def __getattr__(self, name):
        return getattr(_dt.datetime, name)

    def __call__(self, *a, **k):
        return _dt.datetime(*a, **k)

    @staticmethod
    def now(tz=None):
        sim = kernel.ACTIVE
        if sim is not None and "clock" in sim.obs:
            t = sim.obs["clock"].read()
            sim.event("clock", t.isoformat())
            return t
        return _dt.datetime.now(tz)


OS = _OsProxy()
DATETIME = _DatetimeProxy()


class _SimProcess:
    """What multiprocessing.current_process() returns inside a simulated worker process."""

    def __init__(self, ctx):
        self._identity = (ctx.pid,)            # unique per simulated process, like the real process counter
        self.name = f"ForkProcess-{ctx.pid}"
        self.pid = self.ident = 40000 + ctx.pid
        self.daemon = False
        self.exitcode = None

    def is_alive(self):
        return True


class _SimMainProcess:
    """The simulated program's main process (the checking harness itself runs in a forked farm worker: the library
    must not see that)."""
    _identity = ()
    name = "MainProcess"
    daemon = False
    exitcode = None

    def __init__(self):
        self.pid = self.ident = _REAL_GETPID()

    def is_alive(self):
        return True


_REAL_CURRENT_PROCESS = None
_REAL_PARENT_PROCESS = None
_REAL_GETPID = _os.getpid
_REAL_GETPPID = _os.getppid


def _current_process():
    sim = kernel.ACTIVE
    if sim is not None and not sim.aborting:
        t = sim.cur()
        if t is not None and t.ctx.parent is not None:
            return _SimProcess(t.ctx)
        if t is not None:
            return _SimMainProcess()
    return _REAL_CURRENT_PROCESS()


def _parent_process():
    sim = kernel.ACTIVE
    if sim is not None and not sim.aborting:
        t = sim.cur()
        if t is not None and t.ctx.parent is not None:
            par = sim.ctxs[t.ctx.parent]
            return _SimProcess(par) if par.parent is not None else _SimMainProcess()
        if t is not None:
            return None                       # the simulated main process has no parent
    return _REAL_PARENT_PROCESS()


def _getppid():
    sim = kernel.ACTIVE
    if sim is not None and not sim.aborting:
        t = sim.cur()
        if t is not None and t.ctx.parent is not None:
            par = sim.ctxs[t.ctx.parent]
            return 40000 + par.pid if par.parent is not None else _REAL_GETPID()
    return _REAL_GETPPID()


def _getpid():
    sim = kernel.ACTIVE
    if sim is not None:
        t = sim.cur()
        if t is not None and t.ctx.parent is not None:
            return 40000 + t.ctx.pid
    return _REAL_GETPID()


def install():
    global _REAL_CURRENT_PROCESS
    import multiprocessing
    import pyvolutionary.hypertuner as hypertuner
    import pyvolutionary.multitask as multitask
    if _REAL_CURRENT_PROCESS is None:
        # simulated worker processes have their own identity (public API only; multiprocessing's internals keep
        # calling multiprocessing.process.current_process)
        _REAL_CURRENT_PROCESS = multiprocessing.current_process
        multiprocessing.current_process = _current_process
        global _REAL_PARENT_PROCESS
        _REAL_PARENT_PROCESS = multiprocessing.parent_process
        multiprocessing.parent_process = _parent_process
        _os.getpid = _getpid
        _os.getppid = _getppid
    hypertuner.os = OS
    multitask.os = OS
    hypertuner.datetime = DATETIME
    multitask.datetime = DATETIME
