"""C19 — HyperTuner evaluates the whole grid (exactly once per trial, with that point's parameters) on
the simulated fork pool and selects a mean-optimal grid point; resolve() runs with it."""
from __future__ import annotations

import contextlib
import copy
import io
import itertools
import json
import math
import random
import time

from sim import faults as faults_mod
from sim import install, kernel
from sim.kernel import H
from workload import scenario, scripted, tasks

from . import engine_g, minimize
from .mod_c04 import IDENTITY_TASK

N = {"quick": 5500, "thorough": 50000}
TOL = 1e-9


def plan(pid, tier, seed, n_override=None):
    n = n_override or N[tier]
    return [{"i": i, "seed": H(seed, pid, tier, i), "pid": pid, "tier": tier} for i in range(n)]


def gen_desc(seed, tier):
    r = random.Random(H(seed, "c19"))
    real = r.random() < 0.04

    def subgrid():
        g = {"population_size": [r.choice([1, 2, 3])], "max_cycles": [r.choice([1, 1, 2, 3])]}
        keys = r.sample(["a", "b", "c", "noise"], r.randrange(1, 4))
        for k in keys:
            nv = r.randrange(1, 4)
            if k == "a":
                vals = r.sample([0.0, 2.0, 1.0, 0.5, 1.5, 3.0, -1.0], nv)     # 0/2, 0.5/1.5, -1/3 tie exactly
            elif k == "b":
                vals = r.sample([0.0, 1.0, 2.0, -2.0, 0.5], nv)
            elif k == "c":
                vals = r.sample([0, 1, 2, 4, -4], nv)
            else:
                vals = r.sample([0.0, 0.0, 0.01, 0.3, 2.0], nv)
            g[k] = vals
        if r.random() < 0.3:
            g["fitness_error"] = [None]
        return g

    if real:
        grid = {"max_cycles": [2, 3], "population_size": [10, 20], "n_elites": [3, 4], "p_m": [0.1]}
        if r.random() < 0.5:
            grid["n_elites"] = [3]
    else:
        grid = subgrid() if r.random() < 0.6 else [subgrid() for _ in range(r.randrange(1, 3))]
    mode = r.choice(["serial", "serial", "thread", "process"])
    d = {
        "kind": "C19", "seed": seed, "real_optimizer": real, "grid": grid,
        "n_trials": r.choice([1, 2, 2, 3, 4]), "n_jobs": r.choice([1, 2, 3, 4, 6]),
        "mode": mode, "n_workers": r.choice([1, 2, 3]) if mode != "serial" else r.choice([None, 2]),
        "cpu_count": r.choice([2, 3, 4, 8, 16, 64]), "minmax": r.choice(["min", "max"]),
        "sched": scenario.gen_sched(r),
        "faults": scenario.gen_faults(r, "process", 4, p_none=0.5, kinds=["objective_slow", "stalled_worker", "ac_order"]),
        "resolve_mode": r.choice(["serial", "thread"]),
    }
    r84 = random.Random(H(seed, "c19-real84"))
    if r84.random() < 0.15:
        # any exported optimizer, tuned over its own parameters on a seeded task: every trial of every grid point must
        # reproduce what a freshly constructed optimizer with exactly that point's parameters does on that task
        g84 = _real84_grid(r84)
        if g84 is not None:
            d.update(g84)
            d["real_optimizer"] = True
            d.pop("prior_execute", None)
            return d
    # the tuner may have been used before: an earlier campaign on another task (other direction / shifted costs)
    if not real and r.random() < 0.3:
        d["prior_execute"] = {"minmax": r.choice(["min", "max"]), "shift": r.choice([-50.0, 100.0, 0.0]),
                              "n_trials": r.choice([1, 2]), "grid": subgrid() if r.random() < 0.5 else None}
    return d


def _real84_grid(r):
    names = scenario.optimizer_names()
    opt = names[r.randrange(len(names))]
    base = scenario.base_configs()[opt]["params"]
    defaults = scenario.config_defaults(opt)
    own = sorted(k for k in base if k not in scenario.COMMON) + sorted(defaults)
    if not own:
        return None
    keys = r.sample(own, min(len(own), r.choice([1, 1, 2])))
    grid = {"population_size": [base["population_size"]], "max_cycles": [r.choice([2, 3, 5])]}
    extreme = {}
    for k, c in scenario.extreme_candidates(opt, engine_g.make_config):
        extreme.setdefault(k, []).append(c)
    for k in keys:
        cur = base[k] if k in base else defaults[k]
        vals = [cur]
        cands = [scenario.perturb_value(r, cur) for _ in range(3)] + r.sample(extreme.get(k, []), min(2, len(extreme.get(k, []))))
        for c in cands:
            if c in vals or len(vals) >= 3:
                continue
            try:
                engine_g.make_config(opt, dict(base, **{k: c}))
            except Exception:
                continue
            vals.append(c)
        grid[k] = vals
    if r.random() < 0.3:
        # one EarlyStopping OBJECT as a grid value (ParameterGrid hands the same object to every point that uses it),
        # combined with a short and a longer cycle budget
        grid["early_stopping"] = [{"__early_stopping__": {"patience": r.choice([2, 3, 5, 8]),
                                                          "min_delta": r.choice([1e-2, 1.0, 10.0])}}]
        grid["max_cycles"] = [r.choice([1, 2, 3]), r.choice([8, 12, 15])]
        grid["fitness_error"] = [None]
    fam = r.choice(["cont_multi", "cont_multi", "cont_mixed", "discrete", "permutation", "multi_objective"])
    t = scenario.gen_task(r, fam, dim_max=5)
    t["seed"] = r.choice([0, 1, 42, 12345])
    return {"real84": opt, "grid": grid, "task": t, "minmax": t["minmax"], "mode": "serial", "n_workers": None,
            "n_trials": r.choice([1, 2, 2]), "faults": []}


def _materialise(grid):
    """Replace {"__early_stopping__": {...}} markers by ONE EarlyStopping object each (shared by all grid points)."""
    import pyvolutionary as pv

    def conv(g):
        out = {}
        for k, vals in g.items():
            out[k] = [pv.EarlyStopping(**v["__early_stopping__"]) if isinstance(v, dict) and "__early_stopping__" in v
                      else v for v in vals]
        return out
    return conv(grid) if isinstance(grid, dict) else [conv(g) for g in grid]


def enumerate_grid(grid):
    """Independent enumeration: union of the Cartesian products of the sub-grids, keys sorted."""
    subs = [grid] if isinstance(grid, dict) else list(grid)
    pts = []
    for g in subs:
        keys = sorted(g)
        if not keys:
            pts.append({})
            continue
        for combo in itertools.product(*[g[k] for k in keys]):
            pts.append(dict(zip(keys, combo)))
    return pts


def _cfg_key(d):
    return json.dumps({k: v for k, v in d.items() if k != "table"}, sort_keys=True, default=str)


def execute(desc):
    install.install()
    cl = scripted.ensure()
    import pyvolutionary as pv
    out = []
    stats = {"by_products": {}}

    def add(kind, msg):
        if not any(v["cls"] == [kind] for v in out):
            out.append({"cls": [kind], "msg": msg})

    desc = copy.deepcopy(desc)
    desc["grid"] = _materialise(desc["grid"])
    pts = enumerate_grid(desc["grid"])
    # -- by-product (pure): ParameterGrid laws
    from pyvolutionary.hypertuner import ParameterGrid
    pg = ParameterGrid(copy.deepcopy(desc["grid"]))
    try:
        it = list(pg)
        if len(pg) != len(pts):
            add("grid_law:len", f"len(ParameterGrid)={len(pg)} but the grid has {len(pts)} points")
        if it != pts:
            add("grid_law:iter", f"iteration yields {it[:3]}..., independent enumeration {pts[:3]}...")
        for i in range(len(pts)):
            if pg[i] != it[i]:
                add("grid_law:getitem", f"ParameterGrid[{i}] = {pg[i]} but list(grid)[{i}] = {it[i]}")
                break
        stats["by_products"]["grid_points_checked"] = len(pts)
    except Exception as e:
        add("grid_law:exception", f"ParameterGrid raised {type(e).__name__}: {e}")

    sim = kernel.Sim(desc["seed"], sched=desc.get("sched"), step_cap=4_000_000)
    fp = faults_mod.FaultPlan(desc.get("faults"))
    sim.fault_plan = fp
    fp.setup(sim)
    sim.obs["cpu_count"] = desc["cpu_count"]
    nobj = [0]

    def on_obj_call(sim_, task, tdesc, x):
        nobj[0] += 1
        sim_.event("obj_call", "")
        fp.on_obj_call(sim_, nobj[0])

    sim.obs["on_obj_call"] = on_obj_call
    if desc["real_optimizer"]:
        if desc.get("real84"):
            algo = install.OPTIMIZERS[desc["real84"]]()
            tdesc = desc["task"]
            cfg_cls_ = getattr(pv, scenario.base_configs()[desc["real84"]]["config_class"])
        else:
            algo = pv.BiogeographyBasedOptimization()
            tdesc = {"cls": "SimTask", "family": "cont_multi", "minmax": desc["minmax"],
                     "vars": [{"type": "cont_multi", "name": "x", "lb": [-5.0] * 3, "ub": [5.0] * 3}],
                     "objective": {"family": "sphere", "shift": [0.5] * 3, "const": 1.0}}
            cfg_cls_ = pv.BiogeographyBasedOptimizationConfig
        # observe real runs through the cycle taps
        runs = sim.obs.setdefault("party_runs", [])

        def on_step(sim_, opt, phase):
            if phase == "begin" and getattr(opt, "_current_cycle", 0) == 1:
                opt._run_id = len(runs)
                runs.append({"params": opt._config.model_dump(), "mode": str(opt._mode), "workers": opt._workers,
                             "values": [], "algorithm": type(opt).__name__})
            if phase == "end":
                mm = -1.0 if desc["minmax"] == "max" else 1.0
                runs[opt._run_id]["values"].append(mm * min(a.cost for a in opt._population))

        sim.obs["on_step"] = on_step
        cfg_of = lambda p: cfg_cls_(**copy.deepcopy(p)).model_dump()
    else:
        algo = cl["TunableOptimizer"]()
        tdesc = dict(IDENTITY_TASK, minmax=desc["minmax"])
        cfg_of = lambda p: {k: v for k, v in cl["TunableConfig"](**p).model_dump().items() if k != "table"}
    task = tasks.build_task(tdesc)
    tuner = pv.HyperTuner(algo, copy.deepcopy(desc["grid"]))
    buf = io.StringIO()
    kernel.ACTIVE = sim
    sim.adopt_main()
    exc = None
    try:
        with contextlib.redirect_stdout(buf):
            pe = desc.get("prior_execute")
            if pe:
                # earlier campaign on the same HyperTuner instance; its outcome is not the subject
                try:
                    pt = dict(IDENTITY_TASK, minmax=pe["minmax"])
                    pt["objective"] = dict(pt["objective"], const=-pe["shift"])
                    if pe.get("grid"):
                        tuner._param_grid = copy.deepcopy(pe["grid"])
                    tuner.execute(task=tasks.build_task(pt), n_trials=pe["n_trials"], n_jobs=2, mode="serial")
                    sim.count("prior_execute_calls")
                except kernel.SimAbort:
                    raise
                except BaseException:
                    sim.count("prior_execute_failed")
                tuner._param_grid = copy.deepcopy(desc["grid"])
                sim.obs["party_runs"] = []
            refs = None
            if desc.get("real84"):
                # reference, in the still pristine process: a freshly constructed optimizer per grid point
                refs = []
                for p_ in pts:
                    try:
                        rr = install.OPTIMIZERS[desc["real84"]](cfg_cls_(**copy.deepcopy(p_))).optimize(
                            tasks.build_task(tdesc), mode="serial")
                        refs.append(("ok", float(rr.best_solution.cost)))
                    except kernel.SimAbort:
                        raise
                    except BaseException as e_:
                        refs.append(("exc", type(e_).__name__))
                del sim.obs.setdefault("party_runs", [])[:]
                sim.count("reference_runs_fresh_instance", len(refs))
            try:
                tuner.execute(task=task, n_trials=desc["n_trials"], n_jobs=desc["n_jobs"], mode=desc["mode"],
                              n_workers=desc["n_workers"])
            except kernel.SimAbort:
                raise
            except BaseException as e:
                exc = e
            runs_exec = copy.deepcopy(sim.obs.get("party_runs", []))
            resolve_exc = None
            res = None
            if exc is None:
                try:
                    res = tuner.resolve(mode=desc["resolve_mode"], n_workers=2 if desc["resolve_mode"] != "serial" else None)
                except kernel.SimAbort:
                    raise
                except BaseException as e:
                    resolve_exc = e
            runs_all = copy.deepcopy(sim.obs.get("party_runs", []))
    finally:
        try:
            sim.teardown()
        finally:
            kernel.ACTIVE = None
    stats.update({"digest": sim.digest(), "nevents": sim.nevents, "steps": sum(len(r["values"]) for r in runs_all),
                  "counters": dict(sim.counters), "sched_digest": sim.sched_digest(), "switches": sim.switches,
                  "points": len(pts), "runs": len(runs_exec), "deadlock": sim.deadlock})
    if sim.wall_limit_hit and not sim.deadlock:
        stats["uninformative"] = 1          # cut off by the harness's wall budget (machine under load): no verdict
        return out, stats
    if sim.deadlock or sim.step_limit_hit:
        add("no_termination", f"execute() deadlocked / exceeded the step budget (deadlock={sim.deadlock})")
        return out, stats
    if desc.get("real84") and refs is not None and any(k == "exc" for k, _ in refs):
        # the algorithm itself fails on this task / point (C06's business): nothing to say about the tuner
        stats["uninformative"] = 1
        return out, stats
    if exc is not None:
        add(f"execute_raised:{type(exc).__name__}", f"HyperTuner.execute raised {type(exc).__name__}: {str(exc)[:200]}")
        return out, stats

    # -- exactly once per (grid point, trial), with exactly that point's parameters
    want = {}
    for p in pts:
        want[_cfg_key(cfg_of(p))] = want.get(_cfg_key(cfg_of(p)), 0) + desc["n_trials"]
    got = {}
    vals_by_cfg = {}
    for r in runs_exec:
        k = _cfg_key({kk: vv for kk, vv in r["params"].items() if kk != "table"})
        got[k] = got.get(k, 0) + 1
        vals_by_cfg.setdefault(k, []).append(r["values"][-1] if r["values"] else None)
    for k, n in want.items():
        g = got.get(k, 0)
        if g < n:
            add("point_missing", f"grid point {k} was run {g} time(s) instead of {n} ({desc['n_trials']} trials)")
        elif g > n:
            add("point_repeated", f"grid point {k} was run {g} times instead of {n}")
    for k in got:
        if k not in want:
            add("wrong_parameters", f"a trial ran with parameters {k}, which is not a point of the grid")
    for r in runs_exec:
        if r["mode"] != desc["mode"]:
            add("wrong_mode", f"a trial ran in mode {r['mode']}, execute() was asked for {desc['mode']}")
            break
    # -- result table
    df = tuner._df_fit
    tcols = [f"trial_{i}" for i in range(1, desc["n_trials"] + 1)]
    if df is None or len(df) != len(pts):
        add("table_shape", f"_df_fit has {None if df is None else len(df)} rows for {len(pts)} grid points")
        return out, stats
    rows_ok = True
    for i, p in enumerate(pts):
        row = df.iloc[i]
        if row["params"] != p:
            add("table_params", f"row {i} of _df_fit holds params {row['params']}, grid point {i} is {p}")
            rows_ok = False
    means = []
    for i, p in enumerate(pts):
        vals = [float(df.iloc[i][c]) for c in tcols]
        means.append(sum(vals) / len(vals))
    if rows_ok and not any(v["cls"][0] in ("point_missing", "point_repeated", "wrong_parameters") for v in out):
        # per distinct configuration, the recorded final best costs are what the table holds
        by_cfg_tbl = {}
        for i, p in enumerate(pts):
            by_cfg_tbl.setdefault(_cfg_key(cfg_of(p)), []).extend(float(df.iloc[i][c]) for c in tcols)
        for k, tv in by_cfg_tbl.items():
            rv = sorted(v for v in vals_by_cfg.get(k, []) if v is not None)
            if len(rv) == len(tv) and any(abs(a - b) > TOL * max(1.0, abs(a)) for a, b in zip(sorted(tv), rv)):
                add("table_values", f"trial costs of {k} in _df_fit {sorted(tv)[:4]} differ from the best costs the "
                                    f"runs reported {rv[:4]}")
                break
    if desc.get("real84") and refs is not None and rows_ok:
        for i, p in enumerate(pts):
            want_c = refs[i][1]
            for c in tcols:
                got_c = float(df.iloc[i][c])
                if not (got_c == want_c or (got_c != got_c and want_c != want_c)):
                    add("point_run_differs_from_fresh_optimizer",
                        f"{desc['real84']}: {c} of grid point {p} has best cost {got_c!r}, but a freshly constructed "
                        f"optimizer with exactly these parameters reaches {want_c!r} on the same seeded task")
                    break
    # -- selection
    bp, bs = tuner.best_parameters, tuner.best_score
    if bp not in pts:
        add("best_not_a_grid_point", f"best_parameters {bp} is not a point of the grid")
    else:
        opt_mean = min(means) if desc["minmax"] == "min" else max(means)
        cands = [means[i] for i, p in enumerate(pts) if p == bp]
        tol = TOL * max(1.0, abs(opt_mean))
        if not any(abs(m - opt_mean) <= tol for m in cands):
            add(f"not_optimal:{desc['minmax']}",
                f"best_parameters {bp} has mean best cost {cands[0]!r}; the optimal mean ({desc['minmax']}) over the "
                f"grid is {opt_mean!r} (means {[round(m, 6) for m in means][:8]})")
        if not any(abs(bs - m) <= TOL * max(1.0, abs(m)) for m in cands):
            add("best_score_mismatch", f"best_score {bs!r} is not the trial mean {cands} of best_parameters")
    # -- resolve
    if resolve_exc is not None:
        add(f"resolve_raised:{type(resolve_exc).__name__}", f"resolve() raised {type(resolve_exc).__name__}: "
                                                            f"{str(resolve_exc)[:200]}")
    elif res is not None:
        extra = runs_all[len(runs_exec):]
        if len(extra) != 1:
            add("resolve_runs", f"resolve() performed {len(extra)} optimizer runs instead of 1")
        elif bp in pts and _cfg_key({kk: vv for kk, vv in extra[0]["params"].items() if kk != "table"}) != \
                _cfg_key(cfg_of(bp)):
            add("resolve_parameters", f"resolve() ran with {extra[0]['params']} instead of best_parameters {bp}")
    stats["by_products"]["means_with_exact_ties"] = int(len(set(means)) < len(means))
    return out, stats


def run_job(job):
    t0 = time.time()
    desc = gen_desc(job["seed"], job["tier"])
    vs, st = execute(desc)
    return {"i": job["i"], "seed": job["seed"], "violations": vs, "desc": desc if vs else None,
            "digest": st.get("digest"), "nevents": st.get("nevents", 0), "steps": st.get("steps", 0),
            "points": st.get("points", 0), "runs": st.get("runs", 0), "switches": st.get("switches", 0),
            "sched_digest": st.get("sched_digest"),
            "counters": {k: v for k, v in (st.get("counters") or {}).items() if not k.startswith("fault_fired:")},
            "fired": {k[12:]: v for k, v in (st.get("counters") or {}).items() if k.startswith("fault_fired:")},
            "by_products": st.get("by_products", {}),
            "key": json.dumps([desc["grid"], desc["n_trials"], desc["n_jobs"], desc["mode"], desc["minmax"],
                               desc["cpu_count"], sorted(f["kind"] for f in desc["faults"])], sort_keys=True, default=str),
            "minmax": desc["minmax"], "real": desc["real_optimizer"], "wall": time.time() - t0,
            "real84": bool(desc.get("real84")), "uninformative": st.get("uninformative", 0)}


def replay(pid, desc):
    return execute(desc)[0]


def minimise(pid, desc, cls):
    def still(d):
        return any(v["cls"] == cls for v in replay(pid, d))
    d, n, log = minimize.minimise(desc, cls, still, budget=30)
    # shrink the grid: drop values
    g = d["grid"]
    subs = [g] if isinstance(g, dict) else g
    for sg in subs:
        for k in list(sg):
            while len(sg[k]) > 1 and n < 60:
                save = list(sg[k])
                sg[k] = save[:-1]
                n += 1
                if not still(d):
                    sg[k] = save
                    break
                log.append(f"grid[{k}] shrunk")
    for key, val in (("n_trials", 1), ("n_jobs", 1)):
        if d[key] != val:
            save = d[key]
            d[key] = val
            n += 1
            if not still(d):
                d[key] = save
    msg = next((v["msg"] for v in replay(pid, d) if v["cls"] == cls), None)
    return {"desc": d, "n": n, "log": log, "msg": msg}


def evidence(pid, tier, seed, jobs, results, good, wall):
    distinct = {r["key"] for j, r in good if r["runs"] >= 1}
    fired, probes, bp = {}, {}, {}
    for j, r in good:
        for k, v in r["fired"].items():
            fired[k] = fired.get(k, 0) + v
        for k, v in r["counters"].items():
            probes[k] = probes.get(k, 0) + v
        for k, v in r["by_products"].items():
            bp[k] = bp.get(k, 0) + v
    cov = {
        "evaluations": len(good), "distinct_nontrivial": len(distinct),
        "rule": "one case = one HyperTuner.execute + resolve on the simulated fork pool: grid (dict or list of dicts, "
                "inert and effective keys, values chosen so that means tie exactly or differ only in variance), "
                "n_trials, n_jobs, machine size, solver mode, min/max, scheduler policy and stall faults; the "
                "scripted optimizer reports every run (parameters, mode, value) from inside the simulated worker "
                "processes; distinct = distinct (grid, trials, jobs, mode, direction, machine, fault kinds); "
                "non-trivial = at least one trial ran",
        "samples": [{"job": j["i"], "seed": j["seed"], "case": gen_desc(j["seed"], j["tier"])} for j, r in good[:2]],
        "grid_points_evaluated": sum(r["points"] for j, r in good), "trial_runs_observed": sum(r["runs"] for j, r in good),
        "cases_min": sum(1 for j, r in good if r["minmax"] == "min"),
        "cases_max": sum(1 for j, r in good if r["minmax"] == "max"),
        "cases_with_real_optimizer": sum(1 for j, r in good if r["real"]),
        "cases_any_exported_optimizer_vs_fresh_instance": sum(1 for j, r in good if r.get("real84")),
        "cases_uninformative_algorithm_fails": sum(r.get("uninformative", 0) for j, r in good),
        "simulated_time": {"events_logical_ticks": sum(r["nevents"] for j, r in good)},
        "faults_fired": fired, "probes": probes, "by_products": bp,
        "interleavings": {"distinct_schedule_digests": len({r["sched_digest"] for j, r in good if r["switches"]})},
        "seeds": {"verif_seed": seed, "first": jobs[0]["seed"], "last": jobs[-1]["seed"]},
        "components": {"real": ["HyperTuner.execute/resolve, ParameterGrid", "OptimizationAbstract.optimize loop",
                                "pandas ranking", "pickle hand-off of the tuner to workers",
                                "BiogeographyBasedOptimization in a few cases"],
                       "stub": ["ProcessPoolExecutor.map (simulated fork pool)", "os.cpu_count", "update rule of the "
                                "scripted optimizer", "objective", "OS entropy"]},
    }
    return {"property_id": pid, "tier": tier, "seed": seed, "level": "exploration", "coverage": cov,
            "assumptions": ["the scripted optimizer's reports are the ground truth for which runs happened",
                            "relative tolerance 1e-9 between pandas' mean and the oracle's"],
            "wall_s": wall, "violations": 0}
