"""Engine G — one generic optimizer run under the simulator.

``run_scenario(desc)`` executes the real ``optimize()`` of the named optimizer
on the described task/configuration/mode under one ``Sim`` and returns a
``RunRecord`` with everything the per-property oracles need.
"""
from __future__ import annotations

import contextlib
import copy
import io
import os
import sys
import traceback

from sim import faults as faults_mod
from sim import install, kernel
from workload import objectives, tasks

MAX_OBJ_VIOLATIONS = 8


class RunRecord:
    __slots__ = ("desc", "result", "exc", "exc_origin", "exc_type", "exc_msg", "snapshots", "obj_calls",
                 "obj_violations", "obj_ctx_kinds", "pool_sections", "greedy", "cfg_before", "cfg_after",
                 "task_before", "task_after", "steps", "digest", "sched_digest", "counters", "nevents", "switches",
                 "deadlock", "step_limit", "thread_crashes", "events", "optimizer", "config_obj", "task_obj",
                 "result_dump", "raised_injected", "decisions_len", "nthreads", "init_positions_by_ctx", "ctx_firsts",
                 "base_init", "via", "extra_results", "earlier_results", "wall_limit")

    def __init__(self):
        for s in self.__slots__:
            setattr(self, s, None)


def exc_origin(e: BaseException):
    """Innermost pyvolutionary frame of a failure: (relative file, function, line)."""
    o = getattr(e, "_sim_origin", None)
    tb = e.__traceback__
    last = None
    while tb is not None:
        fn = tb.tb_frame.f_code.co_filename
        if "/pyvolutionary/" in fn:
            last = (fn.split("/pyvolutionary/", 1)[1], tb.tb_frame.f_code.co_name, tb.tb_lineno)
        tb = tb.tb_next
    # an exception that crossed a simulated process boundary lost its traceback there: its origin is the innermost
    # library frame recorded in the worker (whatever re-raised it on this side - get_pool_results, HyperTuner.execute,
    # Multitask.__parallelize__ - is not where it failed)
    if o is not None:
        return o
    return last


_VERIF_ROOT = os.path.dirname(os.path.dirname(os.path.abspath(__file__)))


def raise_if_harness_fault(e: BaseException):
    """An exception whose innermost frame is the simulator's own code is a harness problem, never a verdict about
    the library (injected faults and the simulator's budget / deadlock signals excepted)."""
    if isinstance(e, (faults_mod.InjectedObjectiveFault, kernel.SimStepLimit, kernel.SimDeadlock)):
        return
    if faults_mod.is_injected(e) or type(e).__name__ == "BrokenProcessPool":
        return
    if getattr(e, "_sim_origin", None) is not None:
        return          # raised by library code inside a simulated worker process (its traceback stayed there)
    tb, last, last_fn = e.__traceback__, None, None
    while tb is not None:
        last, last_fn = tb.tb_frame.f_code.co_filename, tb.tb_frame.f_code.co_name
        tb = tb.tb_next
    if last and "/sim/pools.py" in last and last_fn in ("result", "exception", "gen"):
        return          # an exception handed over by a future: the future re-raises what the task raised
    if last and last.startswith(_VERIF_ROOT + os.sep) and "/workload/tasks.py" not in last:
        # documented ValueErrors of the pool model (max_workers <= 0, submit after shutdown) mirror CPython's
        if isinstance(e, (ValueError, RuntimeError)) and "/sim/pools.py" in last and \
                ("max_workers" in str(e) or "after shutdown" in str(e)):
            return
        raise RuntimeError(f"harness fault inside the simulator: {type(e).__name__}: {e} at {last}") from e


def dump_agent(a):
    d = a.model_dump()
    return copy.deepcopy(d)


def make_config(optimizer_name: str, params: dict, shared_es=None):
    """Build the real config object through the real validators.  ``shared_es``: an EarlyStopping *object* the caller
    uses for several configurations (a policy defined once and passed around)."""
    import json
    import pyvolutionary as pv
    here = os.path.dirname(os.path.dirname(os.path.abspath(__file__)))
    base = _base_configs(here)
    cfg_cls = getattr(pv, base[optimizer_name]["config_class"])
    p = dict(params)
    es = p.get("early_stopping")
    if isinstance(es, dict):
        p["early_stopping"] = shared_es if shared_es is not None else pv.EarlyStopping(**es)
    return cfg_cls(**p)


_BASE = None


def _base_configs(here=None):
    global _BASE
    if _BASE is None:
        import json
        here = here or os.path.dirname(os.path.dirname(os.path.abspath(__file__)))
        _BASE = json.load(open(os.path.join(here, "workload", "base_configs.json")))
    return _BASE


def new_sim(desc, keep_events=0, event_kinds=None):
    sim = kernel.Sim(desc.get("seed", 0), sched=desc.get("sched"), step_cap=desc.get("step_cap", 3_000_000),
                     keep_events=keep_events, event_kinds=event_kinds)
    fp = faults_mod.FaultPlan(desc.get("faults"))
    sim.fault_plan = fp
    fp.setup(sim)
    return sim


def _freeze(x):
    try:
        return tuple(_freeze(e) if isinstance(e, (list, tuple)) or hasattr(e, "tolist") and getattr(e, "ndim", 0) else
                     (float(e).hex() if isinstance(e, float) or hasattr(e, "dtype") and e.dtype.kind == "f" else int(e))
                     for e in (x.tolist() if hasattr(x, "tolist") and getattr(x, "ndim", 0) else x))
    except Exception:
        return repr(x)


def _dump_result_light(res):
    return {"evolution": [[(copy.deepcopy(a.position), a.cost, a.fitness) for a in g.agents] for g in res.evolution],
            "rates": list(res.rates), "best": (copy.deepcopy(res.best_solution.position), res.best_solution.cost,
                                               res.best_solution.fitness)}


def _scribble_result(res):
    try:
        for g in res.evolution:
            for a in g.agents:
                if isinstance(a.position, list):
                    for i in range(len(a.position)):
                        if isinstance(a.position[i], list):
                            a.position[i].reverse()
                        else:
                            a.position[i] = 1e300
                a.cost = -1e300
                a.fitness = 1e300
            g.agents.reverse()
            del g.agents[1:]
        res.rates.append(123.0)
        res.rates.reverse()
        res.best_solution.cost = -1e300
        if isinstance(res.best_solution.position, list):
            res.best_solution.position.clear()
        res.evolution.reverse()
    except Exception:
        pass


def install_observers(sim, rec, snapshots=True):
    """Wire the generic observers of engine G into ``sim.obs``."""
    rec.earlier_results = []
    rec.snapshots = []
    rec.init_positions_by_ctx = {}
    rec.obj_calls = 0
    rec.obj_violations = []
    rec.obj_ctx_kinds = {}
    rec.pool_sections = []
    rec.greedy = []
    rec.steps = 0
    slots_cache = {}

    def on_generation(sim_, opt, agents, task_type):
        if opt is not rec.optimizer or not sim_.obs.get("observing"):
            return
        sim_.event("generation", len(agents) if agents is not None else -1)
        if snapshots:
            rec.snapshots.append([dump_agent(a) for a in agents])

    def on_obj_call(sim_, task, tdesc, x):
        if not sim_.obs.get("observing"):
            sim_.event("obj_call", "history")
            return
        rec.obj_calls += 1
        n = rec.obj_calls
        t = sim_.cur()
        kind = "main"
        if t is not None and not t.is_main:
            kind = "process" if t.ctx.parent is not None else "thread"
        rec.obj_ctx_kinds[kind] = rec.obj_ctx_kinds.get(kind, 0) + 1
        if kind == "process" and rec.steps == 0 and not rec.snapshots:
            # initial population built by worker processes: which process evaluated which point, in its own order
            seq = rec.init_positions_by_ctx.setdefault((t.ctx.pid, t.ctx.label, t.ctx.parent), [])
            if len(seq) < 64:
                seq.append(_freeze(x))
        key = id(tdesc)
        sl = slots_cache.get(key)
        if sl is None:
            sl = slots_cache[key] = objectives.flat_slots(tdesc["vars"])
        bad = objectives.member(tdesc["vars"], x, sl)
        sim_.event("obj_call", "ok" if bad is None else bad[0])
        if bad is not None and len(rec.obj_violations) < MAX_OBJ_VIOLATIONS:
            rec.obj_violations.append({"n": n, "defect": bad[0], "index": bad[1], "detail": bad[2],
                                       "context": kind, "steps_done": rec.steps})
        sim_.fault_plan.on_obj_call(sim_, n)

    def on_pool_results(sim_, executors, res):
        if not sim_.obs.get("observing"):
            return
        futs = list(executors)
        want = sorted(id(f._result) for f in futs if getattr(f, "_exception", None) is None)
        got = sorted(id(r) for r in res)
        sec = {"n_futures": len(futs), "n_results": len(res), "multiset_equal": want == got,
               "retrieved": [getattr(f, "_retrieved", None) for f in futs]}
        order = [f.fid for f in sorted(futs, key=lambda f: f._done_seq or 0)]
        sub = [f.fid for f in futs]
        if order != sub:
            sim_.count("completion_order_ne_submission")
        sec["completion_perm"] = tuple(sub.index(f) for f in order) if len(sub) <= 64 else None
        rec.pool_sections.append(sec)

    def on_greedy(sim_, opt, old, new, out):
        if opt is not rec.optimizer or not sim_.obs.get("observing"):
            return
        so = sorted(old, key=lambda a: a.cost)
        sn = sorted(new, key=lambda a: a.cost)
        exp = []
        for i, a in enumerate(so):
            if i < len(sn) and sn[i].cost < a.cost:
                exp.append(sn[i])
            else:
                exp.append(a)
        key = lambda a: (a.cost, repr(a.position))
        ok = sorted(map(key, exp)) == sorted(map(key, out))
        rec.greedy.append({"n_old": len(old), "n_new": len(new), "n_out": len(out), "ok": ok,
                           "mode": str(getattr(opt, "_mode", ""))})

    def on_step(sim_, opt, phase):
        if phase == "begin" and opt is rec.optimizer and sim_.obs.get("observing"):
            rec.steps += 1

    sim.obs["on_generation"] = on_generation
    sim.obs["on_obj_call"] = on_obj_call
    sim.obs["on_pool_results"] = on_pool_results
    sim.obs["on_greedy"] = on_greedy
    sim.obs["on_step"] = on_step


def dump_model(m):
    return copy.deepcopy(m.model_dump())


def dump_task(task):
    d = copy.deepcopy(task.model_dump())
    # variables are declared as the abstract base class: dump each concretely
    d["variables"] = [copy.deepcopy(v.model_dump()) | {"__class__": type(v).__name__} for v in task.variables]
    return d


def finish_record(sim, rec):
    rec.digest = sim.digest()
    rec.sched_digest = sim.sched_digest()
    rec.counters = dict(sim.counters)
    rec.nevents = sim.nevents
    rec.switches = sim.switches
    rec.deadlock = sim.deadlock
    rec.step_limit = sim.step_limit_hit
    rec.wall_limit = sim.wall_limit_hit
    rec.thread_crashes = sim.obs.get("thread_crashes", [])
    rec.events = sim.events
    rec.decisions_len = len(sim.decisions)
    rec.ctx_firsts = [(c.pid, c.parent, c.label, tuple(c.first)) for c in sim.ctxs]
    rec.nthreads = len(sim.threads)


def run_scenario(desc, keep_events=0, event_kinds=None, pre_ops=None) -> RunRecord:
    """Execute one scenario.  ``pre_ops`` (engine P) may use the optimizer before the observed call."""
    install.install()
    rec = RunRecord()
    rec.desc = desc
    cls = install.OPTIMIZERS[desc["optimizer"]]
    late = bool(desc["task"].get("late") or desc["task"]["objective"].get("user_state"))
    # (a task whose class is defined late / whose objective depends on the user's module state is built after the history)
    task = tasks.build_task(dict(desc["task"], late=False)) if not late else None
    shared_es = None
    if desc.get("shared_early_stopping") and isinstance(desc["config"].get("early_stopping"), dict):
        # one EarlyStopping object, defined once by the caller and used by every configuration of the scenario: built
        # first for the OTHER configuration (the order a tuner's grid or a script may well produce)
        import pyvolutionary as _pv0
        shared_es = _pv0.EarlyStopping(**desc["config"]["early_stopping"])
        other = dict(desc["shared_early_stopping"])
        other["early_stopping"] = dict(desc["config"]["early_stopping"])
        try:
            make_config(desc["optimizer"], other, shared_es=shared_es)
        except Exception:
            pass
    cfg = make_config(desc["optimizer"], desc["config"], shared_es=shared_es)
    opt = cls(cfg, debug=True) if desc.get("debug") else cls(cfg)
    rec.optimizer, rec.config_obj, rec.task_obj = opt, cfg, task
    import pyvolutionary.abstract as _abs
    rec.base_init = getattr(cls._init_population, "__wrapped__", cls._init_population) is \
        getattr(_abs.OptimizationAbstract._init_population, "__wrapped__", _abs.OptimizationAbstract._init_population)
    sim = new_sim(desc, keep_events, event_kinds)
    install_observers(sim, rec)
    rec.cfg_before = dump_model(cfg)
    rec.task_before = dump_task(task) if task is not None else None
    out = io.StringIO()
    kernel.ACTIVE = sim
    sim.adopt_main()
    try:
        with contextlib.redirect_stdout(out):
            # instance / process history: earlier optimize() calls (their outcome is not the subject)
            if desc.get("history_config") and desc.get("history"):
                opt.set_config_parameters(copy.deepcopy(desc["history_config"]))
                sim.count("history_other_configuration")
            reuse = None
            for h in desc.get("history") or []:
                try:
                    ht = tasks.build_task(h["task"])
                    if h.get("reuse_object"):
                        reuse = ht
                    if h.get("instance", "same") == "same":
                        ho = opt
                    elif h.get("shared_config"):
                        ho = cls(cfg)            # another optimizer built on the very same configuration object
                        sim.count("history_shared_config_object")
                    else:
                        ho = cls(make_config(desc["optimizer"], desc["config"]))
                    hres = ho.optimize(ht, mode=h.get("mode", "serial"), workers=h.get("workers"))
                    if h.get("keep_result"):
                        # the caller keeps the earlier result: it must still say the same after the later runs
                        rec.earlier_results.append((hres, _dump_result_light(hres)))
                    elif h.get("scribble_result"):
                        # ... or edits it in place (sorting, trimming, rescaling for a plot) before running again
                        _scribble_result(hres)
                        sim.count("history_result_scribbled")
                    if h.get("mode", "serial") != "serial":
                        sim.count("history_runs_pooled")
                    sim.count("history_runs_completed")
                    if desc.get("history_utils"):
                        # the user plots the earlier run's trends, then drops that result
                        import pyvolutionary as _pv
                        _pv.best_agent_trend(hres)
                        _pv.best_agent_position(hres)
                        _pv.agent_trend(hres, 0)
                        _pv.agent_position(hres, min(1, len(hres.evolution[0].agents) - 1))
                        sim.count("history_trend_calls")
                    del hres
                except kernel.SimAbort:
                    raise
                except BaseException:
                    sim.count("history_runs_failed")
            if desc.get("history_config") and desc.get("history"):
                # back to the scenario's configuration, the way a tuner does it
                opt.set_config_parameters(copy.deepcopy(desc["config"]))
            if task is None:
                task = tasks.build_task(desc["task"])
                rec.task_obj = task
            if reuse is not None and type(reuse) is type(task) and reuse.space_dimension == task.space_dimension:
                # one Task object, re-declared in place by the caller between the runs
                for f_ in ("variables", "minmax", "data", "objective_weights", "seed"):
                    setattr(reuse, f_, getattr(task, f_))
                task = reuse
                rec.task_obj = task
                sim.count("task_object_redeclared_in_place")
            elif desc["task"]["objective"].get("user_state") is None:
                tasks.USER_STATE["offset"] = 0.0
            rec.cfg_before = dump_model(cfg)
            rec.task_before = dump_task(task)
            sim.obs["observing"] = True
            try:
                mode = desc.get("mode", "serial")
                kw = {}
                if mode is not None:
                    kw["mode"] = mode
                if desc.get("workers") is not None:
                    kw["workers"] = desc["workers"]
                via = desc.get("via")
                rec.via = via
                if via == "hypertuner":
                    # the result is obtained through the tuning utility: execute() over a one-point grid (exactly the
                    # scenario's configuration), then resolve() - whose OptimizationResult is the observed one
                    import pyvolutionary as _pv
                    sim.obs["observing"] = False
                    sim.obs.setdefault("cpu_count", 4)
                    tuner = _pv.HyperTuner(opt, {k: [copy.deepcopy(v)] for k, v in desc["config"].items()})
                    tuner.execute(task, n_trials=desc.get("via_trials", 1), n_jobs=2, mode=mode or "serial",
                                  n_workers=desc.get("workers") or 2)
                    sim.count("via_hypertuner_execute")
                    sim.obs["observing"] = True
                    rec.result = tuner.resolve(mode=mode or "serial", n_workers=desc.get("workers"))
                elif via == "multitask":
                    # the results are obtained through the multitask utility (trials run in worker processes on copies
                    # of the optimizer); one of the trials' OptimizationResults is the observed one
                    import pyvolutionary as _pv
                    sim.obs.setdefault("cpu_count", 4)
                    mt = _pv.Multitask(algorithms=(opt,), tasks=(task,), modes=(mode or "serial",),
                                       n_workers=desc.get("workers"))
                    mt.execute(n_trials=desc.get("via_trials", 2), n_jobs=2)
                    sim.count("via_multitask_execute")
                    cells = [c for c in mt._df2[0].iloc[:, 0]]
                    rec.extra_results = [c["solution"] for c in cells]
                    rec.result = rec.extra_results[desc.get("via_pick", 0) % len(rec.extra_results)]
                    rec.steps = len(rec.result.rates)       # the cycles ran in a worker process, on a copy
                else:
                    rec.result = opt.optimize(task, **kw)
            except kernel.SimAbort:
                raise
            except BaseException as e:
                raise_if_harness_fault(e)
                rec.exc = e
                rec.exc_type = type(e).__name__
                rec.exc_msg = str(e)[:300]
                rec.exc_origin = exc_origin(e)
                rec.raised_injected = faults_mod.is_injected(e) or (
                    type(e).__name__ == "BrokenProcessPool" and sim.counters.get("fault_fired:worker_crash", 0) > 0)
    finally:
        try:
            sim.teardown()
        finally:
            kernel.ACTIVE = None
    rec.cfg_after = dump_model(cfg)
    rec.task_after = dump_task(task) if task is not None else None
    finish_record(sim, rec)
    return rec
