"""Oracles over one engine-G RunRecord, written from the property statements.

Each returns a list of violations ``{"cls": [...], "msg": str}``; ``cls`` is the
violation class used for known-finding matching and for "same violation"
during minimisation.
"""
from __future__ import annotations

import json
import math
import os

import numpy as np

from workload import objectives
from workload.scenario import CONT_FAMILIES

_HERE = os.path.dirname(os.path.dirname(os.path.abspath(__file__)))


def _load(name):
    return json.load(open(os.path.join(_HERE, "classification", name)))


_CLS_CACHE = {}


def classification(name):
    if name not in _CLS_CACHE:
        _CLS_CACHE[name] = _load(name)
    return _CLS_CACHE[name]


def _eqf(a, b):
    """Exact float equality, NaN equal to NaN."""
    try:
        fa, fb = float(a), float(b)
    except Exception:
        return a == b
    if math.isnan(fa) and math.isnan(fb):
        return True
    return fa == fb


def _pos_equal(p, q):
    try:
        if len(p) != len(q):
            return False
    except TypeError:
        return False
    for a, b in zip(p, q):
        if isinstance(a, (list, tuple, np.ndarray)) or isinstance(b, (list, tuple, np.ndarray)):
            try:
                if list(a) != list(b):
                    return False
            except TypeError:
                return False
        elif not _eqf(a, b):
            return False
    return True


def _better(a, b, minmax):
    """a strictly better than b in the task's direction."""
    return a < b if minmax == "min" else a > b


def user_sign(cost, minmax):
    return cost if minmax == "min" else -cost


# ----------------------------------------------------------------------------- C01
def c01(desc, rec):
    out = []
    if rec.result is None:
        return out
    td = desc["task"]
    slots = objectives.flat_slots(td["vars"])
    seen = set()
    res = rec.result
    for k, gen in enumerate(res.evolution):
        for i, a in enumerate(gen.agents):
            bad = objectives.member(td["vars"], a.position, slots)
            if bad is not None:
                cls = [desc["optimizer"], "evolution", bad[0]]
                if tuple(cls) not in seen:
                    seen.add(tuple(cls))
                    out.append({"cls": cls, "msg": f"generation {k} agent {i}: coordinate {bad[1]}: {bad[2]} "
                                                   f"(position {str(a.position)[:120]})"})
    if res.best_solution is not None:
        bad = objectives.member(td["vars"], res.best_solution.position, slots)
        if bad is not None:
            out.append({"cls": [desc["optimizer"], "best", bad[0]],
                        "msg": f"best_solution coordinate {bad[1]}: {bad[2]}"})
    return out


# ----------------------------------------------------------------------------- C02
def c02(desc, rec):
    out = []
    if rec.result is None:
        return out
    td = desc["task"]
    slots = objectives.flat_slots(td["vars"])
    seen = set()
    res = rec.result
    mm = td["minmax"]

    def check(a, where, prev_cost=None):
        try:
            tc = objectives.true_cost(td, a.position, slots)
        except Exception as e:
            tc = None
        if tc is not None and not _eqf(a.cost, tc):
            kind = "sign" if _eqf(a.cost, -tc) and tc != 0 else "value"
            if kind == "value" and any(s[0] == "p" for s in slots):
                kind = "decode"
            cls = [desc["optimizer"], "cost", kind]
            if tuple(cls) not in seen:
                seen.add(tuple(cls))
                out.append({"cls": cls, "msg": f"{where}: reported cost {a.cost!r} but objective(position) = {tc!r} "
                                               f"(position {str(a.position)[:100]})"})
        try:
            ff = objectives.fitness_of(a.cost)
        except Exception:
            ff = None
        if ff is not None and not _eqf(a.fitness, ff):
            cls = [desc["optimizer"], "fitness", "value"]
            if tuple(cls) not in seen:
                seen.add(tuple(cls))
                out.append({"cls": cls, "msg": f"{where}: fitness {a.fitness!r} but documented function of the "
                                               f"reported cost {a.cost!r} is {ff!r}"})

    for k, gen in enumerate(res.evolution):
        for i, a in enumerate(gen.agents):
            check(a, f"generation {k} agent {i}")
    if res.best_solution is not None:
        check(res.best_solution, "best_solution")
    return out


# ----------------------------------------------------------------------------- C03
def c03(desc, rec):
    out = []
    if rec.result is None:
        return out
    res = rec.result
    mm = desc["task"]["minmax"]
    if not res.evolution or res.best_solution is None:
        return [{"cls": [desc["optimizer"], "missing", mm], "msg": "no best_solution / empty evolution"}]
    last = res.evolution[-1].agents
    b = res.best_solution
    if not any(_pos_equal(a.position, b.position) and _eqf(a.cost, b.cost) for a in last):
        out.append({"cls": [desc["optimizer"], "not_member", mm],
                    "msg": f"best_solution (cost {b.cost!r}) is not an agent of the last generation"})
    better = [a for a in last if _better(a.cost, b.cost, mm)]
    if better:
        out.append({"cls": [desc["optimizer"], "not_optimal", mm],
                    "msg": f"last generation holds cost {better[0].cost!r}, strictly better ({mm}) than "
                           f"best_solution.cost {b.cost!r}"})
    return out


# ----------------------------------------------------------------------------- C04 (observational part)
def stop_model(rates, k, max_cycles, fitness_error, es):
    """Does the documented rule say 'stop' after cycle k (1-based), given rates[0..k-1]?"""
    if k >= max_cycles:
        return True
    if fitness_error is not None and rates[k - 1] <= fitness_error:
        return True
    if es is not None:
        patience = es["patience"] if es.get("patience") is not None else 1           # model defaults
        min_delta = es["min_delta"] if es.get("min_delta") is not None else 1e-4
        # changes of the rate: d_j = rates[j] - rates[j-1]; the library's first "change" is rates[0] - 0 >= 0
        diffs = [rates[0] - 0] + [rates[j] - rates[j - 1] for j in range(1, k)]
        window = diffs[-patience:]
        if all(d < 0 and abs(d) < min_delta for d in window):
            return True
    return False


def c04_obs(desc, rec):
    out = []
    opt = desc["optimizer"]
    if rec.wall_limit and not rec.deadlock:
        return out          # cut off by the harness's wall budget: no verdict
    if rec.step_limit and not rec.deadlock and any(len(v.get("lb") or []) > 16 for v in desc["task"]["vars"]
                                                   if isinstance(v.get("lb"), list)):
        # a task with tens or hundreds of variables: the event budget is a budget, not evidence of non-termination
        return out
    if rec.step_limit and not rec.deadlock and (rec.steps or 0) >= 2:
        # the event budget ran out while cycles were still being completed (bit-string optimizers draw per bit: long
        # runs are expensive): a budget, not evidence of non-termination
        return out
    if rec.step_limit or rec.deadlock:
        out.append({"cls": [opt, "no_termination"], "msg": f"step cap / deadlock: step_limit={rec.step_limit} "
                                                           f"deadlock={rec.deadlock}"})
        return out
    if rec.result is None:
        return out
    res = rec.result
    cfg = desc["config"]
    if rec.via == "multitask":
        # the observed run happened in a worker process on a copy of the optimizer: cycles are counted from the result
        cycles = len(res.rates)
    else:
        cycles = rec.steps
    if cycles > cfg["max_cycles"]:
        out.append({"cls": [opt, "exceeded_max_cycles"], "msg": f"{cycles} cycles ran, max_cycles={cfg['max_cycles']}"})
    if len(res.evolution) != 1 + cycles or len(res.rates) != cycles:
        out.append({"cls": [opt, "length_mismatch"],
                    "msg": f"{cycles} cycles executed but {len(res.evolution)} generations and {len(res.rates)} rates"})
        return out
    for k in range(cycles):
        fit = [a.fitness for a in res.evolution[k + 1].agents]
        want = abs(1 - np.average(fit))
        if not _eqf(res.rates[k], want):
            out.append({"cls": [opt, "rate_mismatch"], "msg": f"rates[{k}]={res.rates[k]!r} but |1-mean fitness| of "
                                                              f"generation {k + 1} is {want!r}"})
            break
    if any(math.isnan(x) for x in res.rates):
        return out          # NaN rates: the rule's comparisons are all false; nothing to assert about them
    es = cfg.get("early_stopping")
    for k in range(1, cycles + 1):
        s = stop_model(res.rates, k, cfg["max_cycles"], cfg.get("fitness_error"), es)
        if k < cycles and s:
            out.append({"cls": [opt, "stopped_late"], "msg": f"a stop criterion held after cycle {k} but "
                                                             f"{cycles} cycles ran (rates {res.rates[:k]})"})
            break
        if k == cycles and not s:
            out.append({"cls": [opt, "stopped_early"], "msg": f"stopped after cycle {k} although no criterion "
                                                              f"holds (rates {res.rates})"})
    return out


# ----------------------------------------------------------------------------- C05
def c05(desc, rec):
    out, seen = [], set()
    for v in rec.obj_violations or []:
        cls = [desc["optimizer"], v["defect"]]
        if tuple(cls) in seen:
            continue
        seen.add(tuple(cls))
        out.append({"cls": cls, "msg": f"objective evaluation #{v['n']} ({v['context']} context, after "
                                       f"{v['steps_done']} cycles started): coordinate {v['index']}: {v['detail']}"})
    return out


# ----------------------------------------------------------------------------- C06 (valid calls)
def failure_key(desc, rec):
    fn = rec.exc_origin[1] if rec.exc_origin else "?"
    return [desc["optimizer"], rec.exc_type, fn]


def c06(desc, rec):
    """Strict part: any internal failure on a continuous-variable family."""
    if rec.exc is None or rec.raised_injected or rec.step_limit or rec.deadlock:
        out = []
        if rec.result is not None:
            steps = rec.steps if rec.via != "multitask" else len(rec.result.rates)
            ok = type(rec.result).__name__ == "OptimizationResult" and len(rec.result.evolution) == 1 + steps
            if not ok:
                out.append({"cls": [desc["optimizer"], "incomplete_result", "optimize"],
                            "msg": f"{len(rec.result.evolution)} generations for {rec.steps} cycles"})
        return out
    fam = desc["task"].get("family")
    if fam not in CONT_FAMILIES:
        return []        # integer-coded families: decided per (optimizer, encoding) pair by the batch oracle
    where = f"{rec.exc_origin[0]}:{rec.exc_origin[2]} in {rec.exc_origin[1]}" if rec.exc_origin else "?"
    return [{"cls": failure_key(desc, rec),
             "msg": f"optimize() failed with {rec.exc_type}: {rec.exc_msg[:160]} at {where} "
                    f"(family {fam}, mode {desc.get('mode')}, after {rec.steps} cycles)"}]


# ----------------------------------------------------------------------------- C09 (observational part)
def _field_diffs(before, after, prefix=""):
    diffs = []
    if isinstance(before, dict) and isinstance(after, dict):
        for k in sorted(set(before) | set(after), key=str):
            if k not in before or k not in after:
                diffs.append(prefix + str(k))
            elif not _deep_equal(before[k], after[k]):
                sub = _field_diffs(before[k], after[k], prefix + str(k) + ".")
                diffs.extend(sub or [prefix + str(k)])
    elif isinstance(before, list) and isinstance(after, list) and len(before) == len(after) \
            and all(isinstance(x, dict) for x in before + after):
        for i, (x, y) in enumerate(zip(before, after)):
            diffs.extend(_field_diffs(x, y, prefix + f"{i}."))
    elif not _deep_equal(before, after):
        diffs.append(prefix.rstrip("."))
    return diffs


def c09_obs(desc, rec):
    """Config and task dumps taken before the observed optimize() call vs after it returned or raised."""
    out = []
    opt = desc["optimizer"]
    outcome = "returned" if rec.exc is None else "raised"
    for f in _field_diffs(rec.cfg_before, rec.cfg_after):
        out.append({"cls": [opt, "config", f, outcome],
                    "msg": f"config field {f!r} changed after optimize() {outcome} (mode {desc.get('mode')})"})
    for f in _field_diffs(rec.task_before, rec.task_after):
        out.append({"cls": [opt, "task", f, outcome],
                    "msg": f"task field {f!r} changed after optimize() {outcome} (family {desc['task'].get('family')}, "
                           f"mode {desc.get('mode')})"})
    return out


# ----------------------------------------------------------------------------- C10
def c10(desc, rec):
    out = []
    if rec.result is None:
        return out
    opt = desc["optimizer"]
    n = desc["config"]["population_size"]
    variable = set(classification("variable_population.json")["optimizers"])
    seen = set()
    for k, gen in enumerate(rec.result.evolution):
        m = len(gen.agents)
        kind = None
        if m == 0:
            kind = "empty"
        elif m > n:
            kind = "too_large"
        elif m != n and opt not in variable:
            kind = "not_exact"
        if kind and kind not in seen:
            seen.add(kind)
            out.append({"cls": [opt, kind], "msg": f"generation {k} has {m} agents, population_size={n} "
                                                   f"(mode {desc.get('mode')})"})
    return out


# ----------------------------------------------------------------------------- C15 (history fidelity)
def _earlier_results_intact(desc, rec):
    """A result handed to the caller by an earlier run is as durable as a recorded generation: the later runs (on the
    same instance, on another instance sharing the configuration, in the same process) must not rewrite it."""
    out = []
    opt = desc["optimizer"]
    for n, (res, snap) in enumerate(rec.earlier_results or []):
        try:
            now = {"evolution": [[(a.position, a.cost, a.fitness) for a in g.agents] for g in res.evolution],
                   "rates": list(res.rates), "best": (res.best_solution.position, res.best_solution.cost,
                                                      res.best_solution.fitness)}
        except Exception as e:
            out.append({"cls": [opt, "earlier_result_rewritten", "unreadable"], "msg": f"earlier result #{n}: {e}"})
            continue
        what = None
        if len(now["evolution"]) != len(snap["evolution"]):
            what = ("size", f"{len(snap['evolution'])} generations when returned, {len(now['evolution'])} now")
        elif not _deep_equal(now["rates"], snap["rates"]):
            what = ("rates", f"rates were {snap['rates'][:3]}..., now {now['rates'][:3]}...")
        elif not _deep_equal(list(now["best"]), list(snap["best"])):
            what = ("best", f"best_solution was {str(snap['best'])[:80]}, now {str(now['best'])[:80]}")
        else:
            for k, (ga, gs) in enumerate(zip(now["evolution"], snap["evolution"])):
                if not _deep_equal([list(a) for a in ga], [list(a) for a in gs]):
                    what = ("generation", f"generation {k} of the earlier result changed")
                    break
        if what:
            out.append({"cls": [opt, "earlier_result_rewritten", what[0]],
                        "msg": f"the result returned by earlier run #{n} was altered by a later run: {what[1]}"})
            break
    return out


def c15(desc, rec):
    out = _earlier_results_intact(desc, rec)
    if rec.result is None or not rec.snapshots:
        return out
    opt = desc["optimizer"]
    mm = desc["task"]["minmax"]
    res = rec.result
    if len(res.evolution) != len(rec.snapshots):
        return out + [{"cls": [opt, "history_length"], "msg": f"{len(res.evolution)} recorded generations, "
                                                              f"{len(rec.snapshots)} were appended during the run"}]
    seen = set()
    for k, (gen, snap) in enumerate(zip(res.evolution, rec.snapshots)):
        if len(gen.agents) != len(snap):
            cls = [opt, "core_rewritten", "size"]
            if tuple(cls) not in seen:
                seen.add(tuple(cls))
                out.append({"cls": cls, "msg": f"generation {k}: {len(snap)} agents when recorded, {len(gen.agents)} now"})
            continue
        for i, (a, s) in enumerate(zip(gen.agents, snap)):
            d = a.model_dump()
            for key, sv in s.items():
                cur = d.get(key)
                if key == "cost":
                    same = _eqf(cur, user_sign(sv, mm))
                elif key == "position":
                    same = _pos_equal(cur, sv)
                elif key == "fitness":
                    same = _eqf(cur, sv)
                else:
                    same = _deep_equal(cur, sv)
                if not same:
                    cls = [opt, "core_rewritten", key] if key in ("position", "cost", "fitness") \
                        else [opt, "extra_rewritten", key]
                    if tuple(cls) not in seen:
                        seen.add(tuple(cls))
                        out.append({"cls": cls, "msg": f"generation {k} agent {i}: field {key!r} was "
                                                       f"{str(sv)[:60]} when recorded, now {str(cur)[:60]}"})
    return out


def _deep_equal(a, b):
    if isinstance(a, np.ndarray):
        a = a.tolist()
    if isinstance(b, np.ndarray):
        b = b.tolist()
    if isinstance(a, (list, tuple)) and isinstance(b, (list, tuple)):
        return len(a) == len(b) and all(_deep_equal(x, y) for x, y in zip(a, b))
    if isinstance(a, dict) and isinstance(b, dict):
        return a.keys() == b.keys() and all(_deep_equal(a[k], b[k]) for k in a)
    if isinstance(a, (float, np.floating)) or isinstance(b, (float, np.floating)):
        return _eqf(a, b)
    if hasattr(a, "__dict__") and hasattr(b, "__dict__") and type(a) is type(b) and not isinstance(a, type):
        return _deep_equal(vars(a), vars(b))
    try:
        return bool(a == b)
    except Exception:
        return a is b


def c15_trend(desc, rec, r):
    """By-product (pure): the trend utilities against a direct ranking of each generation."""
    out = []
    if rec.result is None:
        return out
    import pyvolutionary as pv
    res = rec.result
    opt = desc["optimizer"]
    mm = desc["task"]["minmax"]
    n_gen = len(res.evolution)
    iters = sorted(r.sample(range(n_gen), r.randrange(1, n_gen + 1)))
    if r.random() < 0.4:
        # any list of iterations: unsorted, with repetitions
        iters = [r.randrange(n_gen) for _ in range(r.randrange(1, n_gen + 3))]
    min_size = min(len(g.agents) for g in res.evolution)
    idx = r.randrange(0, min_size)
    if any(math.isnan(a.cost) for g in res.evolution for a in g.agents):
        return out

    def ranked(k):
        return sorted((a.cost for a in res.evolution[k].agents), reverse=(mm == "max"))

    seen = set()

    def report(util, msg):
        cls = ["trend", util, mm]
        if tuple(cls) not in seen:
            seen.add(tuple(cls))
            out.append({"cls": cls, "msg": msg})

    try:
        t = pv.agent_trend(res, idx, iters)
        for k, c in zip(iters, t):
            if not _eqf(c, ranked(k)[idx]):
                report("agent_trend", f"agent_trend(idx={idx}) at iteration {k} = {c!r}, but the {idx}-th best "
                                      f"({mm}) cost of that generation is {ranked(k)[idx]!r}")
                break
        p = pv.agent_position(res, idx, iters)
        for k, pos in zip(iters, p):
            want = ranked(k)[idx]
            if not any(_pos_equal(a.position, pos) and _eqf(a.cost, want) for a in res.evolution[k].agents):
                report("agent_position", f"agent_position(idx={idx}) at iteration {k} is not the position of an "
                                         f"agent with the {idx}-th best cost {want!r}")
                break
        bt = pv.best_agent_trend(res)
        if len(bt) != n_gen or not _eqf(bt[-1], res.best_solution.cost):
            report("best_agent_trend", f"best_agent_trend(result)[-1] = {bt[-1] if bt else None!r} but "
                                       f"best_solution.cost = {res.best_solution.cost!r}")
        bp = pv.best_agent_position(res, iters)
        for k, pos in zip(iters, bp):
            want = ranked(k)[0]
            if not any(_pos_equal(a.position, pos) and _eqf(a.cost, want) for a in res.evolution[k].agents):
                report("best_agent_position", f"best_agent_position at iteration {k} is not a best ({mm}) agent")
                break
    except Exception as e:
        report("exception", f"trend utility raised {type(e).__name__}: {e}")
    return out


# ----------------------------------------------------------------------------- C17
def c17(desc, rec):
    out = []
    if rec.result is None:
        return out
    opt = desc["optimizer"]
    if opt not in classification("elitist.json")["optimizers"]:
        return out
    mm = desc["task"]["minmax"]
    prev = None
    for k, gen in enumerate(rec.result.evolution):
        costs = [a.cost for a in gen.agents]
        if not costs or any(math.isnan(c) for c in costs):
            return out
        best = min(costs) if mm == "min" else max(costs)
        if prev is not None and _better(prev, best, mm):
            out.append({"cls": [opt, mm], "msg": f"best cost got worse from generation {k - 1} ({prev!r}) to "
                                                 f"generation {k} ({best!r})"})
            break
        prev = best
    return out


# ----------------------------------------------------------------------------- C11 (pool boundary)
def c11_pool(desc, rec):
    out = []
    mode = desc.get("mode")
    seen = set()

    def add(kind, msg):
        if kind not in seen:
            seen.add(kind)
            out.append({"cls": [mode, kind], "msg": msg})

    for j, sec in enumerate(rec.pool_sections or []):
        if sec["n_results"] < sec["n_futures"]:
            add("result_lost", f"pooled section {j}: {sec['n_futures']} futures submitted, {sec['n_results']} "
                               f"results returned")
        elif sec["n_results"] > sec["n_futures"]:
            add("result_duplicated", f"pooled section {j}: {sec['n_futures']} futures, {sec['n_results']} results")
        elif not sec["multiset_equal"]:
            add("result_duplicated", f"pooled section {j}: returned results are not the futures' results "
                                     f"(some lost, some duplicated)")
        elif any(c is not None and c != 1 for c in sec["retrieved"]):
            add("result_duplicated" if max(c or 0 for c in sec["retrieved"]) > 1 else "result_lost",
                f"pooled section {j}: per-future retrieval counts {sec['retrieved']}")
    for g in rec.greedy or []:
        if not g["ok"] and mode != "serial":
            add("greedy_mismatch", f"pooled greedy selection differs from the serial outcome as a multiset "
                                   f"({g['n_old']} incumbents, {g['n_new']} challengers, {g['n_out']} installed)")
    if rec.result is not None and rec.base_init and desc["task"].get("family") in CONT_FAMILIES \
            and not any(f["kind"].startswith("stream_") for f in desc.get("faults") or []):
        pos = [tuple(a.position) for a in rec.result.evolution[0].agents]
        if len(set(pos)) < len(pos):
            add("duplicate_initial_points", f"initial population: {len(set(pos))} distinct points out of {len(pos)} "
                                            f"(workers={desc.get('workers')})")
    # workers of one process pool must not replay one another's random stream
    pools = {}
    for pid_, parent, label, first in rec.ctx_firsts or []:
        if parent is None or not first or not label.startswith("pool"):
            continue
        if rec.via and parent == 0:
            continue        # workers of the driving utility's own pool: each runs a whole (possibly seeded) trial
        name, _, val = first[0].partition(":")
        if name in ("uniform", "random", "random_sample", "rand", "normal", "standard_normal") and "0x" in val:
            pools.setdefault(label.split("w")[0], []).append(first[0])
    for pl, firsts in pools.items():
        if len(set(firsts)) < len(firsts):
            add("replayed_stream", f"{len(firsts)} worker processes of one pool drew, {len(set(firsts))} distinct "
                                   f"first values: workers replay one another's random stream")
            break
    # ... and must not produce one another's points: two worker processes of the initial pool whose sequences of
    # evaluated points share a prefix that independent uniform draws would share with probability < 1e-12
    if mode == "process" and rec.base_init and rec.init_positions_by_ctx and \
            not any(f["kind"].startswith("index_") or
                    (f["kind"].startswith("stream_") and desc["task"].get("family") not in CONT_FAMILIES)
                    for f in desc.get("faults") or []):
        lp1 = _log10_coincidence(desc["task"]["vars"])
        by_pool = {}
        for (pid_, label, parent_), seq in rec.init_positions_by_ctx.items():
            if rec.via and parent_ == 0:
                continue        # workers of the driving utility's own pool: each runs a whole (possibly seeded) trial
            by_pool.setdefault(label.split("w")[0], []).append((label, seq))
        done = False
        for pl, workers in by_pool.items():
            for i in range(len(workers)):
                for j in range(i + 1, len(workers)):
                    a, b = workers[i][1], workers[j][1]
                    L = 0
                    while L < min(len(a), len(b)) and a[L] == b[L]:
                        L += 1
                    if L and L * lp1 <= -12.0:
                        add("replayed_positions", f"worker processes {workers[i][0]} and {workers[j][0]} of the initial "
                                                  f"pool evaluated the same first {L} point(s) (chance for independent "
                                                  f"draws: 1e{L * lp1:.0f}): workers replay one another's random stream")
                        done = True
                        break
                if done:
                    break
            if done:
                break
    if rec.deadlock:
        add("deadlock", "the pooled run deadlocked")
    return out


def _log10_coincidence(vars_):
    """log10 of the probability that two independent uniform draws from the search space coincide exactly."""
    lp = 0.0
    for v in vars_:
        t = v["type"]
        if t == "cont":
            lp -= 15.0
        elif t in ("cont_multi", "multiobj"):
            lp -= 15.0 * len(v["lb"])
        elif t == "discrete":
            lp -= math.log10(max(2, len(v["choices"])))
        elif t == "discrete_multi":
            lp -= sum(math.log10(max(2, len(ch))) for ch in v["choices"])
        elif t == "binary":
            lp -= v["n"] * math.log10(2)
        elif t == "perm":
            lp -= math.log10(math.factorial(len(v["items"])))
    return min(lp, -1e-9)
