"""Worker farm: forked worker processes, one duplex pipe each (no shared locks),
per-job wall watchdog with kill-and-restart.  A killed job is reported as a
harness timeout, never as a pass.
"""
from __future__ import annotations

import faulthandler
import multiprocessing as mp
import os
import signal
import sys
import time
import traceback
from multiprocessing.connection import wait

_CTX = mp.get_context("fork")


def _run_isolated(fn, job, timeout_s, logf):
    """Run one job in a forked child of this (pristine) worker: nothing a job does to module-level state of the
    library under test - caches, globals, patched attributes - can leak into the next job, so a result is a
    function of the job alone and a replay in a fresh process is faithful."""
    import pickle
    r, w = os.pipe()
    pid = os.fork()
    if pid == 0:
        code = 0
        try:
            os.close(r)
            try:
                faulthandler.dump_traceback_later(max(1, timeout_s - 1), file=logf)
                res = fn(job)
            except BaseException as e:  # harness problem inside a job
                res = {"harness_error": f"{type(e).__name__}: {e}", "traceback": traceback.format_exc()[-2000:]}
            finally:
                faulthandler.cancel_dump_traceback_later()
            try:
                data = pickle.dumps(res, protocol=pickle.HIGHEST_PROTOCOL)
            except BaseException as e:
                data = pickle.dumps({"harness_error": f"unpicklable job result: {e}"})
            with os.fdopen(w, "wb") as f:
                f.write(data)
        except BaseException:
            code = 1
        finally:
            os._exit(code)
    os.close(w)
    chunks = []
    with os.fdopen(r, "rb") as f:
        while True:
            b = f.read(1 << 16)
            if not b:
                break
            chunks.append(b)
    os.waitpid(pid, 0)
    data = b"".join(chunks)
    if not data:
        return {"harness_error": "job process died without a result"}
    try:
        return pickle.loads(data)
    except BaseException as e:
        return {"harness_error": f"cannot read job result: {e}"}


def _worker(conn, jobs, fn, init_fn, wid, log_path, timeout_s):
    try:
        signal.signal(signal.SIGINT, signal.SIG_IGN)
        os.setpgrp()                      # the watchdog kills the whole group (worker + the job's forked child)
        logf = open(log_path, "a") if log_path else sys.stderr
        if init_fn is not None:
            init_fn()
        while True:
            idx = conn.recv()
            if idx is None:
                return
            res = _run_isolated(fn, jobs[idx], timeout_s, logf)
            conn.send((idx, res))
    except (EOFError, KeyboardInterrupt):
        return
    finally:
        try:
            conn.close()
        except Exception:
            pass
        os._exit(0)


def run_jobs(jobs, fn, nproc=None, timeout_s=120, init_fn=None, log_path=None, progress=None, deadline=None):
    """Run fn(job) for every job; returns (results list aligned with jobs, list of timed-out indices)."""
    n = len(jobs)
    nproc = max(1, min(nproc or os.cpu_count() or 1, n)) if n else 0
    results = [None] * n
    timed_out = []
    next_idx = 0
    done = 0
    workers = {}          # wid -> dict(proc, conn, idx, t0)

    def start(wid):
        parent, child = _CTX.Pipe(duplex=True)
        p = _CTX.Process(target=_worker, args=(child, jobs, fn, init_fn, wid, log_path, timeout_s), daemon=True)
        p.start()
        child.close()
        workers[wid] = {"proc": p, "conn": parent, "idx": None, "t0": None}

    def dispatch(wid):
        nonlocal next_idx
        w = workers[wid]
        if next_idx < n and (deadline is None or time.time() < deadline):
            w["idx"], w["t0"] = next_idx, time.time()
            w["conn"].send(next_idx)
            next_idx += 1
        else:
            w["idx"] = None
            try:
                w["conn"].send(None)
            except Exception:
                pass

    for wid in range(nproc):
        start(wid)
        dispatch(wid)

    skipped = 0
    while True:
        busy = {wid: w for wid, w in workers.items() if w["idx"] is not None}
        if not busy:
            break
        ready = wait([w["conn"] for w in busy.values()], timeout=0.5)
        for conn in ready:
            wid = next(k for k, w in workers.items() if w["conn"] is conn)
            w = workers[wid]
            try:
                idx, res = conn.recv()
            except (EOFError, OSError):
                # the worker died (crash in native code, os._exit, OOM kill)
                idx = w["idx"]
                results[idx] = {"harness_error": "worker process died"}
                done += 1
                try:
                    w["proc"].kill()
                except Exception:
                    pass
                start(wid)
                dispatch(wid)
                continue
            results[idx] = res
            done += 1
            if progress is not None:
                progress(done, n)
            dispatch(wid)
        now = time.time()
        for wid, w in list(workers.items()):
            if w["idx"] is not None and now - w["t0"] > timeout_s:
                idx = w["idx"]
                try:
                    os.killpg(w["proc"].pid, signal.SIGKILL)
                except Exception:
                    try:
                        os.kill(w["proc"].pid, signal.SIGKILL)
                    except Exception:
                        pass
                w["proc"].join(timeout=5)
                try:
                    w["conn"].close()
                except Exception:
                    pass
                timed_out.append(idx)
                results[idx] = {"harness_timeout": True}
                done += 1
                start(wid)
                dispatch(wid)
    for w in workers.values():
        try:
            w["proc"].join(timeout=2)
            if w["proc"].is_alive():
                w["proc"].kill()
        except Exception:
            pass
    return results, timed_out
