"""Known findings: committed list of genuine defects recorded rather than repaired.
Read-only at run time."""
from __future__ import annotations

import json
import os

_HERE = os.path.dirname(os.path.dirname(os.path.abspath(__file__)))
PATH = os.path.join(_HERE, "known_findings.json")


def load():
    if not os.path.exists(PATH):
        return {"findings": [], "fixed": []}
    return json.load(open(PATH))


def _match(pattern, cls):
    if len(pattern) != len(cls):
        return False
    return all(p == "*" or p == c for p, c in zip(pattern, cls))


class Known:
    def __init__(self, pid):
        data = load()
        self.entries = [e for e in data.get("findings", []) if e["property"] == pid]
        self.seen = {}

    def lookup(self, cls):
        for e in self.entries:
            if _match(e["class"], cls):
                return e
        return None

    def note(self, entry):
        k = json.dumps(entry["class"])
        self.seen[k] = self.seen.get(k, 0) + 1

    def lines(self, pid):
        out = []
        for e in self.entries:
            k = json.dumps(e["class"])
            if k in self.seen:
                out.append(f"KNOWN-FINDING: property={pid} class={k} {e['what']} (seen {self.seen[k]}x)")
        return out
