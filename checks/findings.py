"""Known findings: committed list of genuine defects recorded rather than repaired.
Read-only at run time."""
from __future__ import annotations

import json
import os

_HERE = os.path.dirname(os.path.dirname(os.path.abspath(__file__)))
PATH = os.path.join(_HERE, "known_findings.json")


def load():
    if not os.path.exists(PATH):
        return {"findings": [], "fixed": []}
    return json.load(open(PATH))


def _match(pattern, cls):
    if len(pattern) != len(cls):
        return False
    return all(p == "*" or p == c for p, c in zip(pattern, cls))


class Known:
    def __init__(self, pid):
        data = load()
        self.pid = pid
        self.all = data.get("findings", [])
        self.entries = [e for e in self.all if e["property"] == pid]
        self.seen = {}

    def lookup(self, cls):
        for e in self.entries:
            if _match(e["class"], cls):
                return e
        # C11 re-runs the C01/C02/C03/C10 oracles in pooled modes: [mode, "C0x", <class of that property>...]
        if self.pid == "C11" and len(cls) > 2 and cls[1] in ("C01", "C02", "C03", "C10"):
            for e in self.all:
                if e["property"] == cls[1] and _match(e["class"], cls[2:]):
                    return e
        return None

    def note(self, entry):
        k = json.dumps(entry["class"])
        self.seen[k] = self.seen.get(k, 0) + 1

    def lines(self, pid):
        out = []
        listed = list(self.entries)
        if pid == "C11":
            listed += [e for e in self.all if e["property"] in ("C01", "C02", "C03", "C10")
                       and json.dumps(e["class"]) in self.seen]
        for e in listed:
            k = json.dumps(e["class"])
            n = self.seen.get(k, 0)
            tail = f"seen in {n} run(s) of this batch" if n else "not encountered in this batch"
            out.append(f"KNOWN-FINDING: property={pid} class={k} {e['what']} ({tail})")
        return out
