"""C04 — optimize() terminates exactly when the first configured stop criterion holds.

Part 1 (engine S): a scripted optimizer lets the simulator prescribe the whole *history* of
per-cycle convergence rates; thresholds are placed exactly on rates, on their nextafter
neighbours and on |changes|; the number of executed cycles is compared with an executable
reference model of the documented rule.
Part 2 (engine G, observational): the same identities on real-optimizer runs.
"""
from __future__ import annotations

import json
import math
import random
import time

import numpy as np

from sim import install
from sim.kernel import H
from workload import objectives, scenario, scripted, tasks

from . import engine_g, engine_p, gprops, minimize, oracles_g
from .engine_p import Session

N = {"quick": (16000, 3000), "thorough": (160000, 30000)}       # (scripted histories, observational runs)
gprops.G_PROPS["C04"] = dict(oracles=["c04_obs"], families=scenario.FAMILIES, modes=scenario.MODES,
                             n_quick=N["quick"][1], n_thorough=N["thorough"][1],
                             opts={"p_no_faults": 0.6, "small_pop_p": 0.25, "extreme_p": 0.0, "extreme_every": 3})

IDENTITY_TASK = {"cls": "SimTask", "family": "scripted", "vars": [{"type": "cont", "name": "c", "lb": -1e9, "ub": 1e9}],
                 "objective": {"family": "linear", "w": [1.0], "const": 0.0}}


def plan(pid, tier, seed, n_override=None):
    ns, ng = N[tier]
    if n_override:
        ns, ng = n_override, max(1, n_override // 4)
    jobs = [{"i": i, "seed": H(seed, pid, tier, "s", i), "pid": pid, "tier": tier, "kind": "scripted"}
            for i in range(ns)]
    for j in gprops.plan("C04", tier, seed, n_override=ng):
        j = dict(j, i=ns + j["i"], kind="observational")
        jobs.append(j)
    return jobs


# ----------------------------------------------------------------------------- reference model
def expected_rate(costs):
    fit = [objectives.fitness_of(c) for c in costs]
    return abs(1 - np.average(fit))


def first_stop(rate_of, max_cycles, fitness_error, es, horizon=10_000):
    """Least k >= 1 at which a configured criterion holds; rate_of(k) = rate of cycle k (1-based)."""
    rates = []
    for k in range(1, horizon + 1):
        rates.append(rate_of(k))
        if k >= max_cycles:
            return k, "max_cycles"
        if fitness_error is not None and rates[-1] <= fitness_error:
            return k, "fitness_error"
        if es is not None:
            p, md = es["patience"], es["min_delta"]
            changes = [rates[j] - rates[j - 1] for j in range(1, len(rates))]
            if len(changes) >= p and all(d < 0 and abs(d) < md for d in changes[-p:]):
                return k, "early_stopping"
    return None, "none"


# ----------------------------------------------------------------------------- history generation
def _cost_for_rate(r):
    """A non-negative cost whose single-agent rate |1 - 1/(1+c)| is ~r (r in [0,1))."""
    r = min(max(r, 0.0), 0.999999)
    return r / (1.0 - r)


def gen_history(seed, tier):
    r = random.Random(H(seed, "c04"))
    L = r.randrange(1, 26 if tier == "quick" else 41)
    m = r.choice([1, 1, 2, 3])
    # target rates with runs of small decreases (early-stopping windows), increases and zero changes
    delta = r.choice([1e-5, 1e-3, 5e-3, 0.05])
    cur = r.uniform(0.2, 0.95)
    targets = []
    while len(targets) < L:
        run = r.choice([1, 1, 2, 3, 4, 5])
        how = r.choice(["dec_small", "dec_small", "dec_small", "dec_big", "inc", "flat"])
        for _ in range(run):
            if how == "dec_small":
                cur = max(cur - delta * r.uniform(0.2, 0.99), 1e-6)
            elif how == "dec_big":
                cur = max(cur - r.uniform(0.05, 0.3), 1e-6)
            elif how == "inc":
                cur = min(cur + r.uniform(1e-4, 0.2), 0.99)
            targets.append(cur)
    targets = targets[:L]
    rows = []
    negative_mode = r.random() < 0.2          # negative costs: rate = mean |c|, may exceed 1
    for t in targets:
        if negative_mode:
            rows.append([-(t * 3.0) for _ in range(m)])
        elif m == 1 or r.random() < 0.5:
            rows.append([_cost_for_rate(t)] * m)
        else:
            c = _cost_for_rate(t)
            rows.append([c * r.uniform(0.8, 1.2) for _ in range(m)])
    init = [r.uniform(0.5, 5.0) for _ in range(m)]
    lookup = False
    if r.random() < 0.2:
        # generations of different sizes (variable-population optimizers)
        rows = [row[:r.choice([1, 2, 3])] if len(row) > 1 else row * r.choice([1, 2, 3]) for row in rows]
    if r.random() < 0.12:
        # infinite / undefined costs (penalised or failed evaluations): rates become 1, inf or NaN
        lookup = True
        for _ in range(r.randrange(1, 4)):
            row = rows[r.randrange(L)]
            row[r.randrange(len(row))] = r.choice([math.inf, math.inf, -math.inf, math.nan])
    rates = [float(expected_rate(row)) for row in rows]
    changes = [rates[j] - rates[j - 1] for j in range(1, L)]
    finite = [x for x in rates if math.isfinite(x)] or [0.5]
    # criteria, placed on the decision boundaries
    max_cycles = r.choice([1, 2, max(1, L - 1), L, L + 1, L + 5, r.randrange(1, L + 3)])
    fe = None
    if r.random() < 0.6:
        j = r.randrange(L)
        fe = r.choice([rates[j], math.nextafter(rates[j], math.inf), math.nextafter(rates[j], -math.inf),
                       rates[j], 0.0, min(finite), min(finite) * 0.999, max(finite) + 1.0, -1.0])
        if not math.isfinite(fe):
            fe = r.choice([min(finite), 0.0, 1.0])
    es = None
    if r.random() < 0.6:
        p = r.choice([1, 1, 2, 2, 3, 4])
        negs = [abs(d) for d in changes if d < 0 and math.isfinite(d)]
        if negs and r.random() < 0.7:
            d = r.choice(negs)
            md = r.choice([d, math.nextafter(d, math.inf), math.nextafter(d, 0.0), d * 2, max(negs) * 1.01,
                           min(negs) * 0.99])
        else:
            md = r.choice([1e-4, 1e-2, 1.0, 0.0, -1.0, 1e-9])
        es = {"patience": p, "min_delta": md}
    if fe is None and es is None and r.random() < 0.5:
        max_cycles = r.choice([1, L, L + 1])
    d = {"kind": "C04", "seed": seed, "minmax": r.choice(["min", "min", "max"]), "init": init, "script": rows,
         "lookup": lookup,
         "max_cycles": max_cycles, "fitness_error": fe, "early_stopping": es}
    # the instance may have been used before, under other stop criteria (own stream: the histories above stay as they were)
    rp = random.Random(H(seed, "c04-prior"))
    if rp.random() < 0.25:
        prior = []
        for _ in range(rp.choice([1, 1, 2])):
            pe = None
            if rp.random() < 0.5:
                pe = {"patience": rp.choice([1, 2, 3, 4]), "min_delta": rp.choice([1e-4, 1e-2, 1.0, delta * 2])}
            if es is not None and rp.random() < 0.4:
                pe = "shared"      # the very same EarlyStopping object as the observed configuration's
            prior.append({"max_cycles": rp.choice([1, 2, L, L + 3, max_cycles, max_cycles + 2]),
                          "fitness_error": rp.choice([None, None, 0.0, min(finite), max(finite) + 1.0]),
                          "early_stopping": pe, "reconfigure": rp.random() < 0.5})
        d["prior"] = prior
    return d


# ----------------------------------------------------------------------------- execution
def run_scripted(desc):
    cl = scripted.ensure()
    import pyvolutionary as pv
    out = []
    script, L = desc["script"], len(desc["script"])

    def rate_of(k):
        return float(expected_rate(script[min(k - 1, L - 1)]))

    want, why = first_stop(rate_of, desc["max_cycles"], desc["fitness_error"], desc["early_stopping"],
                           horizon=max(desc["max_cycles"], L) + 5)
    es = pv.EarlyStopping(**desc["early_stopping"]) if desc["early_stopping"] else None
    table = None
    tdesc = dict(IDENTITY_TASK, minmax=desc["minmax"])
    if desc.get("lookup"):
        table = []
        for c in list(desc["init"]) + [c for row in script for c in row]:
            if not any(v == c or (v != v and c != c) for v in table):
                table.append(c)
        if len(table) < 2:
            table.append(12345.0)
        tdesc = dict(tdesc, vars=[{"type": "discrete", "name": "c", "choices": table}])
    cfg = cl["ScriptedConfig"](population_size=len(desc["init"]), max_cycles=desc["max_cycles"],
                               fitness_error=desc["fitness_error"], early_stopping=es, init=desc["init"],
                               script=script, table=table)
    with Session(desc["seed"], step_cap=400_000) as s:
        opt = cl["ScriptedOptimizer"](cfg)
        for i, pr in enumerate(desc.get("prior") or []):
            # earlier runs on the same instance, ended by whatever criterion their configuration had
            pes = es if pr["early_stopping"] == "shared" else \
                (pv.EarlyStopping(**pr["early_stopping"]) if pr["early_stopping"] else None)
            pcfg = cl["ScriptedConfig"](population_size=len(desc["init"]), max_cycles=pr["max_cycles"],
                                        fitness_error=pr["fitness_error"], early_stopping=pes, init=desc["init"],
                                        script=script, table=table)
            if pr.get("reconfigure"):
                opt.set_config_parameters(pcfg.model_dump())
            else:
                opt = cl["ScriptedOptimizer"](pcfg)
            s.call(opt, tasks.build_task(tdesc), entropy_label=("c04-prior", i))
            s.sim.count("prior_runs_on_instance")
            if pr.get("reconfigure") or i == len(desc["prior"]) - 1:
                opt.set_config_parameters(cfg.model_dump())
        r = s.call(opt, tasks.build_task(tdesc), entropy_label="c04")
        digest = s.sim.digest()
        nevents = s.sim.nevents
        wall_cut = s.sim.wall_limit_hit
    stats = {"digest": digest, "nevents": nevents, "steps": r.steps, "decided_by": why, "want": want}
    if wall_cut and not r.deadlock:
        return out, stats           # cut off by the harness's wall budget (machine under load): no verdict
    if r.step_limit or r.deadlock:
        out.append({"cls": ["scripted", "no_termination"],
                    "msg": f"optimize() did not terminate within the step budget (model: stop after cycle {want})"})
        return out, stats
    if r.exc is not None:
        out.append({"cls": ["scripted", "raised", r.exc_type], "msg": f"optimize() raised {r.exc_type}: {r.exc_msg}"})
        return out, stats
    cycles = r.steps
    if cycles > desc["max_cycles"]:
        out.append({"cls": ["scripted", "exceeded_max_cycles"],
                    "msg": f"{cycles} cycles executed with max_cycles={desc['max_cycles']}"})
    if want is not None and cycles < want:
        out.append({"cls": ["scripted", "stopped_early"],
                    "msg": f"stopped after cycle {cycles}; the first criterion ({why}) holds only at cycle {want} "
                           f"(max_cycles={desc['max_cycles']}, fitness_error={desc['fitness_error']!r}, "
                           f"early_stopping={desc['early_stopping']})"})
    elif want is not None and cycles > want:
        out.append({"cls": ["scripted", "stopped_late"],
                    "msg": f"ran {cycles} cycles; criterion {why} already held at cycle {want} "
                           f"(max_cycles={desc['max_cycles']}, fitness_error={desc['fitness_error']!r}, "
                           f"early_stopping={desc['early_stopping']})"})
    res = r.result
    if len(res.evolution) != 1 + cycles or len(res.rates) != cycles:
        out.append({"cls": ["scripted", "length_mismatch"],
                    "msg": f"{cycles} cycles executed, {len(res.evolution)} generations, {len(res.rates)} rates"})
    else:
        for k in range(cycles):
            if not oracles_g._eqf(res.rates[k], rate_of(k + 1)):
                out.append({"cls": ["scripted", "rate_mismatch"],
                            "msg": f"rates[{k}] = {res.rates[k]!r}, |1 - mean fitness| of that generation is "
                                   f"{rate_of(k + 1)!r}"})
                break
            key = lambda c: (1, 0.0) if c != c else (0, c)
            got = sorted((a.cost for a in res.evolution[k + 1].agents), key=key)
            if not oracles_g._deep_equal(got, sorted(script[min(k, L - 1)], key=key)):
                out.append({"cls": ["scripted", "generation_mismatch"],
                            "msg": f"generation {k + 1} holds costs {got[:4]}, the script installed "
                                   f"{sorted(script[min(k, L - 1)], key=key)[:4]}"})
                break
    return out, stats


def run_job(job):
    t0 = time.time()
    if job["kind"] == "observational":
        r = gprops.run_job(job)
        r["kind"] = "observational"
        return r
    desc = gen_history(job["seed"], job["tier"])
    vs, st = run_scripted(desc)
    return {"i": job["i"], "seed": job["seed"], "kind": "scripted", "violations": vs, "desc": desc if vs else None,
            "digest": st["digest"], "nevents": st["nevents"], "steps": st["steps"], "decided_by": st["decided_by"],
            "histkey": json.dumps([desc["script"], desc["max_cycles"], desc["fitness_error"], desc["early_stopping"],
                                   desc["minmax"], desc.get("prior")]), "wall": time.time() - t0,
            "prior_runs": len(desc.get("prior") or [])}


def replay(pid, desc):
    if desc.get("kind") == "C04":
        return run_scripted(desc)[0]
    rec = engine_g.run_scenario(desc)
    return oracles_g.c04_obs(desc, rec)


def minimise(pid, desc, cls):
    def still(d):
        return any(v["cls"] == cls for v in replay(pid, d))
    if desc.get("kind") != "C04":
        d, n, log = minimize.minimise(desc, cls, still)
    else:
        import copy
        d, n, log = copy.deepcopy(desc), 0, []
        # shrink the scripted history from the tail, then drop criteria
        changed = True
        while changed and n < 60:
            changed = False
            for cand in _c04_candidates(d):
                n += 1
                if still(cand):
                    d, changed = cand, True
                    log.append("simplified")
                    break
    msg = next((v["msg"] for v in replay(pid, d) if v["cls"] == cls), None)
    return {"desc": d, "n": n, "log": log, "msg": msg}


def _c04_candidates(d):
    import copy
    if len(d["script"]) > 1:
        c = copy.deepcopy(d)
        c["script"] = c["script"][:-1]
        yield c
        c = copy.deepcopy(d)
        c["script"] = c["script"][1:]
        yield c
    if d.get("prior"):
        c = copy.deepcopy(d)
        c["prior"] = c["prior"][:-1]
        yield c
    if d["early_stopping"] is not None:
        c = copy.deepcopy(d)
        c["early_stopping"] = None
        yield c
    if d["fitness_error"] is not None:
        c = copy.deepcopy(d)
        c["fitness_error"] = None
        yield c
    if len(d["init"]) > 1:
        c = copy.deepcopy(d)
        c["init"] = c["init"][:1]
        c["script"] = [row[:1] for row in c["script"]]
        yield c


def evidence(pid, tier, seed, jobs, results, good, wall):
    sg = [(j, r) for j, r in good if r.get("kind") == "scripted"]
    og = [(j, r) for j, r in good if r.get("kind") == "observational"]
    decided = {}
    for j, r in sg:
        decided[r["decided_by"]] = decided.get(r["decided_by"], 0) + 1
    distinct = {r["histkey"] for j, r in sg if r["steps"] >= 1}
    distinct |= {json.dumps([r["cell"], r["digest"]]) for j, r in og if r["steps"] >= 1}
    events = sum(r["nevents"] for j, r in good)
    cycles = sum(r["steps"] for j, r in good)
    fired = {}
    for j, r in og:
        for k, v in r["fired"].items():
            fired[k] = fired.get(k, 0) + v
    samples = [{"job": j["i"], "seed": j["seed"], "history": gen_history(j["seed"], j["tier"])} for j, r in sg[:2]]
    cov = {
        "evaluations": len(good), "distinct_nontrivial": len(distinct),
        "rule": "scripted part: one case = one prescribed history of per-cycle costs (hence rates) plus a stop "
                "configuration whose thresholds sit exactly on rates / nextafter neighbours / |changes|; the real "
                "optimize() loop runs a scripted optimizer; distinct = distinct (history, criteria, direction); "
                "observational part: engine-G runs of real optimizers, distinct by (cell, event digest); non-trivial "
                "= at least one cycle executed",
        "samples": samples, "scripted_histories": len(sg), "observational_runs": len(og),
        "criterion_that_decided_scripted_runs": decided,
        "scripted_cases_on_a_used_instance": sum(1 for j, r in sg if r.get("prior_runs")),
        "seeds": {"verif_seed": seed, "first": jobs[0]["seed"], "last": jobs[-1]["seed"]},
        "simulated_time": {"events_logical_ticks": events, "optimizer_cycles": cycles},
        "faults_fired": fired,
        "components": {"real": ["OptimizationAbstract.optimize / __error_check__ / __should_stop__", "EarlyStopping, "
                                "config validators", "average_fitness, calculate_fitness", "84 real optimizers "
                                "(observational part)"],
                       "stub": ["update rule of the scripted optimizer", "objective (identity)", "OS entropy",
                                "pools (observational part)"]},
    }
    return {"property_id": pid, "tier": tier, "seed": seed, "level": "exploration", "coverage": cov,
            "assumptions": ["the reference model is written from the statement (first cycle at which a configured "
                            "criterion holds), not from the code", "sampling of histories, not enumeration"],
            "wall_s": wall, "violations": 0}
