"""Module interface (plan / run_job / replay / minimise / evidence) for engine-G properties."""
from __future__ import annotations

import json
import os

from . import engine_g, gprops, minimize, oracles_g
from workload.scenario import CONT_FAMILIES, INT_FAMILIES

HERE = os.path.dirname(os.path.dirname(os.path.abspath(__file__)))


def plan(pid, tier, seed, n_override=None):
    return gprops.plan(pid, tier, seed, n_override)


def run_job(job):
    return gprops.run_job(job)


def replay(pid, desc):
    if desc.get("kind") == "invalid":
        from . import invalid_calls
        return invalid_calls.run(desc)[0]
    rec = engine_g.run_scenario(desc)
    return gprops.apply_oracles(pid, desc, rec, desc.get("seed", 0))


def minimise(pid, desc, cls):
    def still(d):
        return any(v["cls"] == cls for v in replay(pid, d))
    d, n, log = minimize.minimise(desc, cls, still)
    msg = None
    for v in replay(pid, d):
        if v["cls"] == cls:
            msg = v["msg"]
    return {"desc": d, "n": n, "log": log, "msg": msg}


# ----------------------------------------------------------------------------- C06 pair oracle
def _pair_baseline():
    p = os.path.join(HERE, "classification", "c06_pair_baseline.json")
    if not os.path.exists(p):
        return {}
    return json.load(open(p)).get("pairs", {})


def batch_oracle(pid, jobs, results, known):
    """C06 on integer-coded families: an (optimizer, encoding) pair that works on the pinned tree must not
    start failing wholesale (fails in *all* of its >= 4 runs with documented parameter values in the batch)."""
    if pid != "C06":
        return []
    base = _pair_baseline()
    tally = {}
    for j, r in zip(jobs, results):
        if not r or "harness_error" in r or "harness_timeout" in r:
            continue
        if r["family"] not in INT_FAMILIES or r.get("injected"):
            continue
        if r.get("perturbed"):
            continue        # "wholesale" is judged on the documented parameter values, not on perturbed ones
        k = f"{r['cell'][0]}|{r['family']}"
        t = tally.setdefault(k, {"n": 0, "fail": 0, "first": None, "keys": {}})
        t["n"] += 1
        if r["exc"] is not None:
            t["fail"] += 1
            t["keys"][json.dumps(r["exc"])] = t["keys"].get(json.dumps(r["exc"]), 0) + 1
            if t["first"] is None:
                t["first"] = j
    out = []
    for k, t in sorted(tally.items()):
        status = base.get(k)
        if status == "works" and t["n"] >= 4 and t["fail"] == t["n"]:
            opt, fam = k.split("|")
            cls = [opt, "pair_fails_wholesale", fam]
            if known.lookup(cls) is not None:
                known.note(known.lookup(cls))
                continue
            j = t["first"]
            desc = gprops.make_desc(j)
            out.append({"cls": cls, "msg": f"(optimizer, encoding) pair {k} works on the pinned tree but failed in all "
                                           f"{t['n']} runs of this batch: {t['keys']}", "desc": desc, "n": t["n"],
                        "job": j["i"], "seed": j["seed"]})
    return out


# ----------------------------------------------------------------------------- evidence
RULES = {
    "G": "each run = one real optimize() of one exported optimizer under the simulator; scenario = (optimizer, "
         "validated config, task family/bounds/objective, mode, workers, scheduler policy+seed, fault list) drawn from "
         "H(VERIF_SEED, property, tier, i), stratified round-robin over optimizer x family x mode cells; a run is "
         "non-trivial if it executed >= 1 optimization cycle; distinct = distinct (optimizer, family, mode, "
         "event-log digest) tuples among non-trivial runs",
}


def evidence(pid, tier, seed, jobs, results, good, wall):
    spec = gprops.G_PROPS[pid]
    cells_total = len(gprops.cells_for(spec))
    cells_cov = set()
    distinct = set()
    fired, probes = {}, {}
    sched_digests, perms = set(), set()
    events = cycles = obj_calls = 0
    ctx_kinds = {}
    fault_free = with_faults = 0
    completed = failed = 0
    int_pairs = {}
    invalid_cases = {}
    for j, r in good:
        if j.get("kind") == "invalid":
            invalid_cases[r["invalid_case"]] = invalid_cases.get(r["invalid_case"], 0) + 1
            for k, v in r["counters"].items():
                probes[k] = probes.get(k, 0) + v
            continue
        cells_cov.add(tuple(r["cell"]))
        if r["steps"] >= 1:
            distinct.add((tuple(r["cell"]), r["digest"]))
        for k, v in r["fired"].items():
            fired[k] = fired.get(k, 0) + v
        for k, v in r["counters"].items():
            probes[k] = probes.get(k, 0) + v
        if r["switches"]:
            sched_digests.add(r["sched_digest"])
        for p in r.get("completion_perms") or []:
            if p is not None:
                perms.add(tuple(p))
        events += r["nevents"]
        cycles += r["steps"]
        obj_calls += r["obj_calls"]
        for k, v in (r.get("obj_ctx") or {}).items():
            ctx_kinds[k] = ctx_kinds.get(k, 0) + v
        if r["fault_kinds"]:
            with_faults += 1
        else:
            fault_free += 1
        if r["ok_result"]:
            completed += 1
        elif r["exc"] is not None:
            failed += 1
        if pid == "C06" and r["family"] in INT_FAMILIES:
            k = f"{r['cell'][0]}|{r['family']}"
            t = int_pairs.setdefault(k, [0, 0])
            t[0] += 1
            t[1] += 1 if r["exc"] is not None else 0
    samples = []
    for j, r in [(j, r) for j, r in good if j.get("kind") != "invalid"][:3]:
        samples.append({"job": j["i"], "seed": j["seed"], "scenario": gprops.make_desc(j)})
    cov = {
        "evaluations": len(good),
        "distinct_nontrivial": len(distinct),
        "rule": RULES["G"],
        "samples": samples,
        "seeds": {"verif_seed": seed, "derivation": "seed_i = H(VERIF_SEED, property, tier, i) (sha256 of the tuple)",
                  "first": jobs[0]["seed"] if jobs else None, "last": jobs[-1]["seed"] if jobs else None},
        "simulated_time": {"events_logical_ticks": events, "optimizer_cycles": cycles,
                           "objective_evaluations": obj_calls},
        "objective_calls_by_context": ctx_kinds,
        "faults_fired": fired,
        "runs_fault_free": fault_free, "runs_with_fault_plan": with_faults,
        "probes": probes,
        "interleavings": {"distinct_schedule_digests": len(sched_digests),
                          "distinct_completion_orders": len(perms)},
        "coverage_cells": {"covered": len(cells_cov), "total": cells_total},
        "runs_completed_with_result": completed, "runs_failed_with_exception": failed,
        "oracles": spec["oracles"],
        "components": {
            "real": ["pyvolutionary (abstract.py, helpers.py incl. get_pool_executor/get_pool_results, models.py, "
                     "utils.py, all 84 algorithm packages)", "numpy legacy RandomState distributions", "pydantic",
                     "pickle (process-mode hand-off)"],
            "stub": ["concurrent.futures executors/futures/as_completed (model of CPython 3.12, fork start method)",
                     "OS scheduler (seeded baton passing)", "OS entropy for np.random.seed(None)",
                     "objective functions (simulator-supplied Task subclasses)"]},
    }
    if pid == "C06":
        cov["invalid_call_cases"] = invalid_cases
        cov["integer_coded_pairs"] = {"pairs": len(int_pairs),
                                      "failing_in_all_runs": sum(1 for n, f in int_pairs.values() if n and f == n)}
    return {
        "property_id": pid, "tier": tier, "seed": seed, "level": "exploration", "coverage": cov,
        "assumptions": ["user objectives are deterministic and side-effect free",
                        "pooled callables touch shared state only through the RNG and the objective (seams)",
                        "fork start method; spawn/forkserver not modelled",
                        "sampling, not enumeration: a clean batch is evidence, not proof"],
        "wall_s": wall, "violations": 0,
    }
