"""C20 — Multitask runs every algorithm on every task for exactly n_trials trials with the designated
mode (four documented shapes of `modes`), on nested simulated pools, and exports one file per
algorithm under <save_path>/<algorithm name>/ under a simulated clock."""
from __future__ import annotations

import contextlib
import copy
import datetime as _dt
import io
import json
import os
import random
import shutil
import tempfile
import time

from sim import env as sim_env
from sim import faults as faults_mod
from sim import install, kernel
from sim.kernel import H
from workload import scenario, scripted, tasks

from . import minimize
from .mod_c04 import IDENTITY_TASK

N = {"quick": 7000, "thorough": 60000}
MODES = ["serial", "thread", "process"]
ALGOS = ["PartyAlpha", "PartyBeta", "PartyGamma"]
TASKS = ["SimTaskA", "SimTaskB", "SimTaskC"]


def plan(pid, tier, seed, n_override=None):
    n = n_override or N[tier]
    return [{"i": i, "seed": H(seed, pid, tier, i), "pid": pid, "tier": tier} for i in range(n)]


def gen_desc(seed, tier):
    r = random.Random(H(seed, "c20"))
    n = r.randrange(1, 4)
    m = r.randrange(1, 4)
    shape = r.choice(["none", "one", "per_algorithm", "per_task", "per_pair", "per_pair", "per_algorithm", "invalid"])
    rm = lambda: r.choice(MODES)
    if shape == "none":
        modes = None
    elif shape == "one":
        modes = [rm()]
    elif shape == "per_algorithm":
        modes = [rm() for _ in range(n)]
    elif shape == "per_task":
        modes = [rm() for _ in range(m)]
    elif shape == "per_pair":
        modes = [rm() for _ in range(n * m)]
    else:
        k = r.choice([1, n, m, n * m])
        modes = [rm() for _ in range(k)]
        modes[r.randrange(k)] = r.choice(["bogus", "Serial", "", "processes", "threads"])
    # foreign-party fault: one objective evaluation fails, with whatever exception type user code may raise
    rf = random.Random(H(seed, "c20-raise"))
    raise_faults = []
    if rf.random() < 0.15 and shape != "invalid":
        raise_faults = [{"kind": "objective_raise", "at": rf.randrange(1, 1 + 4 * n * m * 3),
                         "exc": rf.choice(faults_mod.EXC_TYPES + ["RuntimeError"])}]
    rsc = random.Random(H(seed, "c20-same-class"))
    same = {"algos": n > 1 and rsc.random() < 0.15, "tasks": m > 1 and rsc.random() < 0.15}
    return {
        "same_class": same,
        "raise_faults": raise_faults,
        "kind": "C20", "seed": seed, "n": n, "m": m, "shape": shape, "modes": modes,
        "n_trials": r.choice([1, 2, 2, 3]), "n_jobs": r.choice([1, 2, 3, 4]), "n_workers": r.choice([None, 1, 2, 3]),
        "cpu_count": r.choice([2, 3, 4, 8, 16, 64]),
        "sched": scenario.gen_sched(r),
        "faults": scenario.gen_faults(r, "process", 4, p_none=0.5, kinds=["objective_slow", "stalled_worker", "ac_order"]),
        "export": r.choice(["csv", "json", "dataframe"]), "save_path": r.choice([None, "out", "deep/er/dir"]),
        "clock": r.choice([[0], [1], [0, 0, 1], [-5, 3], [3600], [1, -1]]),
        "export_twice": r.random() < 0.3,
        # an optimizer object may have been used stand-alone before it is handed to Multitask
        "prior_use": [r.choice([None, None, "thread", "process", "serial"]) for _ in range(n)],
    }


def designated(desc):
    """Mode table (list of acceptable readings) per (i, j) from the documented shapes."""
    n, m, modes = desc["n"], desc["m"], desc["modes"]
    if modes is None:
        return [[["serial"] * m for _ in range(n)]]
    k = len(modes)
    readings = []
    if k == 1:
        readings.append([[modes[0]] * m for _ in range(n)])
    if k == n:
        readings.append([[modes[i]] * m for i in range(n)])
    if k == m:
        readings.append([[modes[j] for j in range(m)] for _ in range(n)])
    if k == n * m:
        readings.append([[modes[i * m + j] for j in range(m)] for i in range(n)])
    if not readings:
        return None
    # when a length is ambiguous (n == m, n*m == n, ...) any consistent reading is accepted
    return readings


def execute(desc):
    install.install()
    cl = scripted.ensure()
    import pyvolutionary as pv
    out = []
    stats = {}

    def add(kind, msg):
        if not any(v["cls"] == [kind] for v in out):
            out.append({"cls": [kind], "msg": msg})

    n, m = desc["n"], desc["m"]
    same = desc.get("same_class") or {}
    # (two algorithms may be instances of ONE optimizer class with different configurations, two tasks instances of ONE
    #  task class with different data: the recorder identifies them by index, not by class name)
    acls = [ALGOS[0] if same.get("algos") else ALGOS[i] for i in range(n)]
    tcls = [TASKS[0] if same.get("tasks") else TASKS[j] for j in range(m)]
    algos = tuple(cl[acls[i]](cl["TunableConfig"](population_size=2, max_cycles=1, a=float(i), b=0.0, c=i))
                  for i in range(n))
    tsk = tuple(tasks.build_task(dict(IDENTITY_TASK, cls=tcls[j], minmax="min",
                                      objective=dict(IDENTITY_TASK["objective"], tag=j))) for j in range(m))
    modes = tuple(desc["modes"]) if desc["modes"] is not None else None
    invalid = desc["modes"] is not None and any(x not in MODES for x in desc["modes"])
    sim = kernel.Sim(desc["seed"], sched=desc.get("sched"), step_cap=4_000_000)
    fp = faults_mod.FaultPlan((desc.get("faults") or []) + (desc.get("raise_faults") or []))
    sim.fault_plan = fp
    fp.setup(sim)
    sim.obs["cpu_count"] = desc["cpu_count"]
    sim.obs["clock"] = sim_env.SimClock(_dt.datetime(2026, 3, 1, 12, 0, 0), desc["clock"])
    nobj = [0]

    def on_obj_call(sim_, task, tdesc, x):
        nobj[0] += 1
        sim_.event("obj_call", "")
        fp.on_obj_call(sim_, nobj[0])

    sim.obs["on_obj_call"] = on_obj_call
    buf = io.StringIO()
    scratch = tempfile.mkdtemp(prefix="c20-", dir=os.environ.get("VERIF_SCRATCH") or None)
    cwd = os.getcwd()
    kernel.ACTIVE = sim
    sim.adopt_main()
    ctor_exc = exec_exc = exp_exc = None
    trial_ids = None
    files = []
    runs = []
    tables = None
    try:
        os.chdir(scratch)
        with contextlib.redirect_stdout(buf):
            for i, pm in enumerate(desc.get("prior_use") or []):
                if pm and i < len(algos):
                    try:
                        algos[i].optimize(tsk[0], mode=pm, workers=2)
                        sim.count("prior_standalone_runs")
                    except kernel.SimAbort:
                        raise
                    except BaseException:
                        pass
            sim.obs["party_runs"] = []
            if desc.get("raise_faults"):
                # the failing evaluation is counted from the start of execute()
                fp.raise_at = [nobj[0] + f["at"] for f in desc["raise_faults"]]
                fp.raise_exc = {nobj[0] + f["at"]: f.get("exc") for f in desc["raise_faults"]}
            try:
                mt = pv.Multitask(algorithms=algos, tasks=tsk, modes=modes, n_workers=desc["n_workers"])
            except kernel.SimAbort:
                raise
            except BaseException as e:
                ctor_exc = e
                mt = None
            if mt is not None:
                try:
                    mt.execute(n_trials=desc["n_trials"], n_jobs=desc["n_jobs"])
                except kernel.SimAbort:
                    raise
                except BaseException as e:
                    exec_exc = e
                runs = copy.deepcopy(sim.obs.get("party_runs", []))
                if exec_exc is None:
                    tables = [(list(df.columns), len(df)) for df in mt._df2]
                    try:
                        trial_ids = [{c: [cell.get("id_trial") if isinstance(cell, dict) else None for cell in df[c]]
                                      for c in df.columns} for df in mt._df2]
                    except Exception:
                        trial_ids = None
                    try:
                        mt.export_results(desc["export"], desc["save_path"])
                        if desc["export_twice"]:
                            mt.export_results(desc["export"], desc["save_path"])
                    except kernel.SimAbort:
                        raise
                    except BaseException as e:
                        exp_exc = e
                    for root, dirs, fs in os.walk(scratch):
                        for f in fs:
                            files.append(os.path.relpath(os.path.join(root, f), scratch))
    finally:
        os.chdir(cwd)
        try:
            sim.teardown()
        finally:
            kernel.ACTIVE = None
            shutil.rmtree(scratch, ignore_errors=True)
    stats.update({"digest": sim.digest(), "nevents": sim.nevents, "runs": len(runs), "counters": dict(sim.counters),
                  "sched_digest": sim.sched_digest(), "switches": sim.switches, "files": len(files),
                  "clock_reads": sim.obs["clock"].reads})
    if sim.wall_limit_hit and not sim.deadlock:
        stats["uninformative"] = 1          # cut off by the harness's wall budget (machine under load): no verdict
        return out, stats
    if sim.deadlock or sim.step_limit_hit:
        add("no_termination", f"Multitask deadlocked / exceeded the step budget (deadlock={sim.deadlock})")
        return out, stats
    # -- construction: unknown modes (and only those) are rejected
    if invalid:
        if ctor_exc is None:
            add("accepted_invalid_mode", f"Multitask accepted modes={desc['modes']} (unknown mode value)")
        elif not isinstance(ctor_exc, ValueError):
            add("invalid_mode_wrong_exception", f"unknown mode rejected with {type(ctor_exc).__name__}")
        return out, stats
    if ctor_exc is not None:
        add(f"shape_rejected:{desc['shape']}",
            f"Multitask(n={n} algorithms, m={m} tasks, modes={desc['modes']}) raised {type(ctor_exc).__name__}: "
            f"{str(ctor_exc)[:160]}")
        return out, stats
    fault_fired = sim.counters.get("fault_fired:objective_raise", 0) > 0
    stats["objective_fault_fired"] = int(fault_fired)
    if fault_fired:
        # a failing objective: whether execute() raises or not, every run that was started must have been started in
        # its designated mode (a fallback to another mode after a failure is not the designated mode)
        readings = designated(desc)
        got = {}
        for r in runs:
            got.setdefault((r.get("algo_index"), r.get("task_index")), []).append(r)
        if readings and not any(all(all(r["mode"] == rd[i][j] for r in got.get((i, j), []))
                                    for i in range(n) for j in range(m)) for rd in readings):
            seen = {f"{acls[i]}[{i}]x{tcls[j]}[{j}]": sorted({r["mode"] for r in got.get((i, j), [])})
                    for i in range(n) for j in range(m)}
            add("wrong_mode", f"modes={desc['modes']} ({desc['shape']}, n={n}, m={m}); after objective evaluation "
                              f"#{desc['raise_faults'][0]['at']} failed with {desc['raise_faults'][0].get('exc')} the pairs "
                              f"ran as {seen}")
        if exec_exc is not None and not faults_mod.is_injected(exec_exc):
            stats["probe_other_exception_after_objective_fault"] = 1
        return out, stats
    if exec_exc is not None:
        add(f"execute_raised:{desc['shape']}:{type(exec_exc).__name__}",
            f"execute() with modes={desc['modes']} ({desc['shape']}) raised {type(exec_exc).__name__}: "
            f"{str(exec_exc)[:160]}")
        return out, stats
    # -- every pair, exactly n_trials, designated mode, requested workers
    readings = designated(desc)
    got = {}
    for r in runs:
        got.setdefault((r.get("algo_index"), r.get("task_index")), []).append(r)
    for i in range(n):
        for j in range(m):
            rs = got.get((i, j), [])
            if len(rs) == 0:
                add("pair_missing", f"(algorithm #{i} {acls[i]}, task #{j} {tcls[j]}) was never run")
            elif len(rs) != desc["n_trials"]:
                add("trial_count", f"(algorithm #{i} {acls[i]}, task #{j} {tcls[j]}) ran {len(rs)} time(s), "
                                   f"n_trials={desc['n_trials']}")
    extra = [k for k in got if k[0] not in range(n) or k[1] not in range(m)]
    if extra:
        add("pair_unknown", f"runs for pairs that were not requested: {extra}")
    ok_reading = False
    for rd in readings:
        if all(all(r["mode"] == rd[i][j] for r in got.get((i, j), [])) for i in range(n) for j in range(m)):
            ok_reading = True
    if not ok_reading:
        seen = {f"{acls[i]}[{i}]x{tcls[j]}[{j}]": sorted({r["mode"] for r in got.get((i, j), [])})
                for i in range(n) for j in range(m)}
        add("wrong_mode", f"modes={desc['modes']} ({desc['shape']}, n={n}, m={m}) but the pairs ran as {seen}")
    if desc["n_workers"] is not None:
        # probe only: the statement designates the *mode* of every pair, it says nothing about the worker count
        stats["probe_runs_with_other_worker_count"] = sum(1 for r in runs if r["workers"] != desc["n_workers"])
    # -- tables
    if tables is None or len(tables) != n:
        add("table_shape", f"{None if tables is None else len(tables)} result tables for {n} algorithms")
    else:
        for i, (cols, nrows) in enumerate(tables):
            want_cols = [f"{acls[i]}_{tcls[j]}" for j in range(m)]
            # (when two tasks share a class the statement still promises a column per task; their labels are not specified)
            cols_ok = sorted(cols) == sorted(want_cols) if len(set(want_cols)) == m else len(set(cols)) == m
            if not cols_ok or nrows != desc["n_trials"]:
                add("table_shape", f"table of algorithm #{i} ({acls[i]}) has columns {cols} and {nrows} rows; expected "
                                   f"one column per task ({m} tasks: {tcls}) and {desc['n_trials']} rows")
                break
        # "a row per trial": row k of every column holds trial k
        for i, cols in enumerate(trial_ids or []):
            for c, ids in cols.items():
                if ids != list(range(1, desc["n_trials"] + 1)):
                    add("table_rows", f"column {c} of the table of {acls[i]} holds trials {ids} in its rows; row k must "
                                      f"hold trial k (1..{desc['n_trials']})")
                    break
    # -- export
    if exp_exc is not None:
        add(f"export_raised:{type(exp_exc).__name__}", f"export_results({desc['export']!r}, {desc['save_path']!r}) raised "
                                                       f"{type(exp_exc).__name__}: {str(exp_exc)[:160]}")
    else:
        base = desc["save_path"] if desc["save_path"] is not None else "multitask"
        ext = {"csv": ".csv", "json": ".json", "dataframe": ".pkl"}[desc["export"]]
        for name in sorted(set(acls)):
            d = os.path.normpath(os.path.join(base, name))
            mine = [f for f in files if os.path.normpath(os.path.dirname(f)) == d]
            need = acls.count(name)          # one file per algorithm, also when two algorithms share a class (and a folder)
            if len(mine) < need or not all(f.endswith(ext) for f in mine):
                add("export_path", f"{len(mine)} {ext} file(s) directly under {d}/ for {need} algorithm(s) named {name}; "
                                   f"files written: {sorted(files)}")
                break
        stray = [f for f in files if not any(os.path.normpath(os.path.dirname(f)) ==
                                             os.path.normpath(os.path.join(base, acls[i])) for i in range(n))]
        if stray:
            add("export_path", f"files outside <save_path>/<algorithm name>/: {sorted(stray)}")
    return out, stats


def run_job(job):
    t0 = time.time()
    desc = gen_desc(job["seed"], job["tier"])
    vs, st = execute(desc)
    return {"i": job["i"], "seed": job["seed"], "violations": vs, "desc": desc if vs else None,
            "digest": st.get("digest"), "nevents": st.get("nevents", 0), "runs": st.get("runs", 0),
            "steps": st.get("runs", 0), "files": st.get("files", 0), "switches": st.get("switches", 0),
            "sched_digest": st.get("sched_digest"), "shape": desc["shape"],
            "counters": {k: v for k, v in (st.get("counters") or {}).items() if not k.startswith("fault_fired:")},
            "fired": {k[12:]: v for k, v in (st.get("counters") or {}).items() if k.startswith("fault_fired:")},
            "key": json.dumps([desc["n"], desc["m"], desc["shape"], desc["modes"], desc["n_trials"], desc["n_jobs"],
                               desc["n_workers"], desc["cpu_count"], desc["export"], desc["save_path"], desc["clock"],
                               sorted(f["kind"] for f in desc["faults"])]),
            "clock_reads": st.get("clock_reads", 0), "wall": time.time() - t0,
            "objective_fault_fired": st.get("objective_fault_fired", 0),
            "other_worker_count": st.get("probe_runs_with_other_worker_count", 0)}


def replay(pid, desc):
    return execute(desc)[0]


def minimise(pid, desc, cls):
    def still(d):
        return any(v["cls"] == cls for v in replay(pid, d))
    d, n, log = minimize.minimise(desc, cls, still, budget=30)
    for key, val in (("n_trials", 1), ("n_jobs", 1), ("export_twice", False), ("clock", [1]), ("n_workers", None)):
        if d.get(key) != val:
            save = d[key]
            d[key] = val
            n += 1
            if not still(d):
                d[key] = save
            else:
                log.append(f"{key}->{val}")
    msg = next((v["msg"] for v in replay(pid, d) if v["cls"] == cls), None)
    return {"desc": d, "n": n, "log": log, "msg": msg}


def evidence(pid, tier, seed, jobs, results, good, wall):
    distinct = {r["key"] for j, r in good if r["runs"] >= 1}
    fired, probes, shapes = {}, {}, {}
    for j, r in good:
        for k, v in r["fired"].items():
            fired[k] = fired.get(k, 0) + v
        for k, v in r["counters"].items():
            probes[k] = probes.get(k, 0) + v
        shapes[r["shape"]] = shapes.get(r["shape"], 0) + 1
    cov = {
        "evaluations": len(good), "distinct_nontrivial": len(distinct),
        "rule": "one case = Multitask(n scripted optimizers of distinct classes, m tasks of distinct classes, modes in "
                "one of {None, 1, n, m, n*m}-tuple shapes or with an invalid value).execute(n_trials, n_jobs) on nested "
                "simulated pools (process pool per pair -> optimize(mode) inside the worker), then export_results in "
                "one of three formats under a simulated clock (frozen / jumping / backwards) into a scratch CWD; the "
                "scripted optimizers report (algorithm, task, mode, workers) of every run from inside the simulated "
                "workers; distinct = distinct case tuples; non-trivial = at least one optimizer run observed",
        "samples": [{"job": j["i"], "seed": j["seed"], "case": gen_desc(j["seed"], j["tier"])} for j, r in good[:2]],
        "cases_by_modes_shape": shapes, "optimizer_runs_observed": sum(r["runs"] for j, r in good),
        "files_created": sum(r["files"] for j, r in good),
        "probe_runs_with_other_worker_count": sum(r.get("other_worker_count", 0) for j, r in good),
        "cases_with_a_failing_objective_evaluation": sum(r.get("objective_fault_fired", 0) for j, r in good),
        "simulated_time": {"events_logical_ticks": sum(r["nevents"] for j, r in good),
                           "clock_reads": sum(r["clock_reads"] for j, r in good)},
        "faults_fired": dict(fired, clock_plans=sum(1 for j, r in good if r["clock_reads"])), "probes": probes,
        "interleavings": {"distinct_schedule_digests": len({r["sched_digest"] for j, r in good if r["switches"]})},
        "seeds": {"verif_seed": seed, "first": jobs[0]["seed"], "last": jobs[-1]["seed"]},
        "components": {"real": ["Multitask (constructor, execute, __parallelize__, __run__, export_results)",
                                "OptimizationAbstract.optimize loop incl. pooled _generate_agents", "pandas writers",
                                "pickle hand-off", "real file system (scratch directory)"],
                       "stub": ["ProcessPoolExecutor / ThreadPoolExecutor (nested simulated pools)", "datetime.now",
                                "os.cpu_count", "update rule of the scripted optimizers", "objective"]},
    }
    return {"property_id": pid, "tier": tier, "seed": seed, "level": "exploration", "coverage": cov,
            "assumptions": ["when a tuple length is ambiguous (n == m, m == 1, ...) any consistent documented reading "
                            "is accepted", "disk faults are not injected: the statement says nothing about them"],
            "wall_s": wall, "violations": 0}
