"""Engine-G properties: which oracles, which part of the scenario space, how many runs."""
from __future__ import annotations

import random
import time

from sim.kernel import H
from workload import scenario
from workload.scenario import CONT_FAMILIES, FAMILIES, INT_FAMILIES, MODES

from . import engine_g, invalid_calls, oracles_g

POOLED = ["thread", "process"]

# id -> spec
G_PROPS = {
    "C01": dict(oracles=["c01"], families=FAMILIES, modes=MODES, n_quick=6000, n_thorough=60000, opts={}),
    "C02": dict(oracles=["c02"], families=FAMILIES, modes=MODES, n_quick=6000, n_thorough=60000,
                opts={"minmax_bias": "max"}),
    "C03": dict(oracles=["c03"], families=FAMILIES, modes=MODES, n_quick=6000, n_thorough=60000,
                opts={"objective_bias": "plateau"}),
    "C05": dict(oracles=["c05"], families=FAMILIES, modes=MODES, n_quick=6000, n_thorough=60000, opts={}),
    "C06": dict(oracles=["c06"], families=FAMILIES, modes=MODES, n_quick=7000, n_thorough=70000,
                opts={"cycles_bias_one": True, "extreme_p": 0.0, "extreme_every": 3, "small_pop_p": 0.0,
                      "no_long_run": True}),
    "C10": dict(oracles=["c10"], families=FAMILIES, modes=MODES, n_quick=6000, n_thorough=60000,
                opts={"pop_scales": (1, 1.5, 2, 3), "any_pop_p": 0.5, "p_history": 0.35, "p_history_config": 0.6, "small_pop_p": 0.0,
                      "p_objective_raise": 0.1, "no_long_run": True}),
    "C15": dict(oracles=["c15", "c15_trend", "c15"], families=FAMILIES, modes=MODES, n_quick=6000, n_thorough=60000,
                opts={"p_history": 0.35, "history_utils": True}),
    "C17": dict(oracles=["c17"], families=FAMILIES, modes=MODES, n_quick=6000, n_thorough=60000,
                opts={"only_classified": "elitist.json", "stop_opts": True, "long_int_runs": 0.5, "any_pop_p": 0.5,
                      "small_pop_p": 0.2, "p_no_faults": 0.35,
                      "fault_kinds": scenario.STREAM_FAULTS + scenario.POOL_FAULTS + ["objective_slow_good"] * 3}),
    "C11": dict(oracles=["c11_pool", "c01", "c02", "c03", "c10"], families=FAMILIES, modes=POOLED,
                n_quick=6000, n_thorough=60000, opts={"p_no_faults": 0.25, "pool_heavy_bias": True, "p_line": 0.15}),
}

POOL_IN_CYCLE = ["KrillHerdOptimization", "WindDrivenOptimization", "WildebeestHerdOptimization",
                 "FicksLawOptimization", "DragonflyOptimization", "CatSwarmOptimization"]


def cells_for(spec):
    opts = scenario.optimizer_names()
    oc = spec["opts"].get("only_classified")
    if oc:
        allowed = set(oracles_g.classification(oc)["optimizers"])
        opts = [o for o in opts if o in allowed]
    return [(o, f, m) for o in opts for f in spec["families"] for m in spec["modes"]]


def plan(pid, tier, seed, n_override=None):
    spec = G_PROPS[pid]
    cells = cells_for(spec)
    r = random.Random(H(seed, pid, tier, "cells"))
    r.shuffle(cells)
    n = n_override or (spec["n_quick"] if tier == "quick" else spec["n_thorough"])
    jobs = []
    floor = (n // len(cells)) * len(cells) if n >= len(cells) else n
    rank = {}
    for i in range(n):
        if i < floor:
            cell = cells[i % len(cells)]
        else:
            cell = cells[r.randrange(len(cells))]
            if spec["opts"].get("pool_heavy_bias") and r.random() < 0.5:
                cell = (r.choice(POOL_IN_CYCLE), cell[1], cell[2])
        rank[cell[0]] = rank.get(cell[0], 0) + 1
        # rank of the job among the jobs of its optimizer: stratifies the boundary-parameter candidates
        jobs.append({"i": i, "seed": H(seed, pid, tier, i), "cell": cell, "pid": pid, "tier": tier,
                     "opt_rank": rank[cell[0]] - 1})
    if pid == "C06":
        # second clause of C06: invalid calls are rejected up front
        k = max(len(invalid_calls.CASES), n // 12)
        names = scenario.optimizer_names()
        for t in range(k):
            i = n + t
            jobs.append({"i": i, "seed": H(seed, pid, tier, "invalid", t), "cell": (names[r.randrange(len(names))], "invalid", "-"),
                         "pid": pid, "tier": tier, "kind": "invalid"})
    return jobs


def make_desc(job):
    spec = G_PROPS[job["pid"]]
    o = dict(spec["opts"])
    opt, fam, mode = job["cell"]
    r = random.Random(H(job["seed"], "propbias"))
    if job["tier"] == "thorough":
        # deeper exploration: more line-granularity schedules, more instance histories
        o["p_line"] = max(o.get("p_line", 0.05), 0.25)
        o["p_history"] = max(o.get("p_history", 0.2), 0.3)
    if o.get("minmax_bias") and r.random() < 0.5:
        o["minmax"] = o["minmax_bias"]
    if o.get("cycles_bias_one") and r.random() < 0.15:
        o["cycles"] = (1, 1)
    if o.get("long_int_runs") and fam in INT_FAMILIES and r.random() < o["long_int_runs"]:
        # small search spaces + many cycles: the population collapses onto exact copies of the best point
        o["cycles"] = (10, 30)
        o["stop_opts"] = False
        o["pop_scales"] = (1, 1, 1.5)
        o["any_pop_p"] = 0.1
        o["dim_max"] = 3
    if o.get("extreme_every") and job.get("opt_rank") is not None and job["opt_rank"] % o["extreme_every"] == 0:
        # every k-th job of an optimizer takes the next boundary-parameter candidate in turn (full coverage of the
        # finite candidate set instead of random picks)
        o["extreme_index"] = job["opt_rank"] // o["extreme_every"]
    big_rank = {5: [129, 130, 131, 160], 25: [64, 65, 127, 128], 45: [33, 100, 200, 257]}.get(job.get("opt_rank"))
    if big_rank and "cont_multi" in spec["families"] and not o.get("no_big_dim"):
        # size thresholds: three runs of every optimizer per batch on tasks with tens to hundreds of variables (short,
        # documented population): one above 128, one around the powers of two below, one more
        fam = "cont_multi"
        o["big_dim"] = r.choice(big_rank)
        o["cycles"] = (1, 1) if job.get("opt_rank") == 5 else (1, 3)
        o["pop_scales"] = (1,)
        o["any_pop_p"] = 0.0
    long_run = job.get("opt_rank") is not None and job["opt_rank"] % 100 == 15 and not o.get("no_long_run")
    if long_run:
        # run length: one run of every optimizer per batch executes a thousand cycles or more (a handful of agents, one
        # or two variables, serial, no other stop criterion): thresholds on the number of recorded generations
        o.update({"cycles": (12, 12), "small_pop_p": 1.0, "dim_max": 2, "stop_opts": False, "p_history": 0.0,
                  "no_via": True, "p_no_faults": 1.0, "p_objective_raise": 0.0, "p_debug": 0.0, "any_pop_p": 0.0,
                  "extreme_index": None, "extreme_p": 0.0, "perturb_p": 0.0})
        mode = "serial"
    desc = scenario.gen_scenario(job["seed"], opt, fam, mode, engine_g.make_config, tier=job["tier"], opts=o)
    if long_run and desc["config"]["population_size"] <= 8:
        desc["config"]["max_cycles"] = r.choice([1000, 1001, 1003, 1024, 1200, 1999, 2001])
        try:
            engine_g.make_config(opt, desc["config"])
        except Exception:
            desc["config"]["max_cycles"] = 12
    if o.get("big_dim"):
        desc["step_cap"] = 12_000_000       # bit-string optimizers draw per bit: events grow with the square of the size
    if o.get("history_utils") and desc.get("history"):
        desc["history_utils"] = True
    if o.get("objective_bias") == "plateau" and r.random() < 0.4 and "multi" not in desc["task"]["objective"]:
        ob = desc["task"]["objective"]
        ob["family"] = "plateau"
        ob.setdefault("q", 1.0)
    return desc


def apply_oracles(pid, desc, rec, seed):
    out = []
    for k_, name in enumerate(G_PROPS[pid]["oracles"]):
        if name == "c15_trend":
            out.extend(oracles_g.c15_trend(desc, rec, random.Random(H(seed, "trend"))))
        else:
            vs = getattr(oracles_g, name)(desc, rec)
            if pid == "C15" and k_ == 2:
                # second pass, after the trend utilities have read the history: reading must not rewrite it
                vs = [dict(v, cls=v["cls"] + ["after_reading"], msg="after the trend utilities were called: " + v["msg"])
                      for v in vs if not any(o["cls"] == v["cls"] for o in out)]
            if pid == "C11" and name != "c11_pool":
                for v in vs:
                    v["cls"] = [desc["mode"], name.upper()] + v["cls"]
            out.extend(vs)
    return out


def run_job(job):
    if job.get("kind") == "invalid":
        return invalid_calls.run_job(job)
    t0 = time.time()
    desc = make_desc(job)
    rec = engine_g.run_scenario(desc)
    vs = apply_oracles(job["pid"], desc, rec, job["seed"])
    return summarize(job, desc, rec, vs, time.time() - t0)


def summarize(job, desc, rec, vs, wall):
    fired = {k.split(":", 1)[1]: v for k, v in rec.counters.items() if k.startswith("fault_fired:")}
    out = {
        "i": job["i"], "seed": job["seed"], "cell": list(job["cell"]),
        "violations": vs, "desc": desc if vs else None,
        "digest": rec.digest, "sched_digest": rec.sched_digest, "nevents": rec.nevents, "steps": rec.steps,
        "obj_calls": rec.obj_calls, "obj_ctx": rec.obj_ctx_kinds, "switches": rec.switches,
        "fired": fired, "counters": {k: v for k, v in rec.counters.items() if not k.startswith("fault_fired:")},
        "fault_kinds": sorted({f["kind"] for f in desc.get("faults") or []}),
        "exc": oracles_g.failure_key(desc, rec) if rec.exc is not None else None,
        "injected": bool(rec.raised_injected), "family": desc["task"].get("family"),
        "step_limit": rec.step_limit, "wall_limit": bool(rec.wall_limit), "deadlock": rec.deadlock, "wall": wall,
        "thread_crashes": len(rec.thread_crashes or []),
        "completion_perms": [s["completion_perm"] for s in (rec.pool_sections or [])[:4]],
        "pool_sections": len(rec.pool_sections or []), "greedy_sections": len(rec.greedy or []),
        "ok_result": rec.result is not None,
        "perturbed": bool(desc.get("perturbed")), "has_history": bool(desc.get("history")),
    }
    return out
