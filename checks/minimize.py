"""Delta-debugging style minimisation of a failing scenario descriptor.

A candidate simplification is accepted only if the *same violation class*
recurs.  Bounded by a re-execution budget and a wall budget.
"""
from __future__ import annotations

import copy
import json
import time

from workload import scenario


def minimise(desc, cls, still_fails, budget=80, wall_s=60.0):
    """still_fails(desc) -> bool (same class recurs).  Returns (desc, n_executions, log)."""
    t0 = time.time()
    n = [0]
    log = []

    def ok(d):
        if n[0] >= budget or time.time() - t0 > wall_s:
            return False
        n[0] += 1
        try:
            return still_fails(d)
        except Exception:
            return False

    cur = copy.deepcopy(desc)

    def attempt(label, mutate):
        nonlocal cur
        d = copy.deepcopy(cur)
        try:
            if mutate(d) is False:
                return False
        except Exception:
            return False
        if json.dumps(d, sort_keys=True) == json.dumps(cur, sort_keys=True):
            return False
        if ok(d):
            cur = d
            log.append(label)
            return True
        return False

    # 1. faults: all at once, then one by one
    if cur.get("faults"):
        if not attempt("drop all faults", lambda d: d.__setitem__("faults", [])):
            i = 0
            while i < len(cur.get("faults", [])):
                if not attempt(f"drop fault {i}", lambda d, i=i: d["faults"].pop(i)):
                    i += 1
    # 2. mode / schedule
    if cur.get("mode") == "process":
        attempt("process->thread", lambda d: d.__setitem__("mode", "thread"))
    if cur.get("mode") in ("thread", "process"):
        def to_serial(d):
            d["mode"], d["workers"], d["sched"] = "serial", None, {"policy": "fifo"}
        attempt("->serial (schedule-independent)", to_serial)
    if cur.get("mode") in ("thread", "process"):
        attempt("sched->fifo", lambda d: d.__setitem__("sched", {"policy": "fifo"}))
        for w in (1, 2):
            if (cur.get("workers") or 0) > w:
                if attempt(f"workers->{w}", lambda d, w=w: d.__setitem__("workers", w)):
                    break
    # 3. ops of engine P / instance history of engine G (drop earlier operations)
    for key in ("ops", "history"):
        if cur.get(key):
            if attempt(f"drop all {key}", lambda d, key=key: d.__setitem__(key, [])):
                continue
            i = 0
            while i < len(cur[key]):
                if not attempt(f"drop {key}[{i}]", lambda d, i=i, key=key: d[key].pop(i)):
                    i += 1
    # 3b. what surrounded the run: driver utility, re-configuration, late class, user-side state
    if cur.get("via"):
        attempt("direct optimize() instead of the utility", lambda d: d.pop("via"))
    if cur.get("history_config"):
        attempt("no re-configuration", lambda d: d.pop("history_config"))
    if isinstance(cur.get("task"), dict) and cur["task"].get("late"):
        def early(d):
            d["task"].pop("late")
            d["task"]["cls"] = "SimTask"
        attempt("task class defined up front", early)
    if isinstance(cur.get("task"), dict) and isinstance(cur["task"].get("objective"), dict) \
            and cur["task"]["objective"].get("user_state"):
        def no_user_state(d):
            for t in [d["task"]] + [h["task"] for h in d.get("history") or [] if isinstance(h.get("task"), dict)]:
                if isinstance(t.get("objective"), dict):
                    t["objective"].pop("user_state", None)
                    t["objective"].pop("user_offset", None)
        attempt("objective independent of user-side state", no_user_state)
    for h_i, h in enumerate(cur.get("history") or []):
        if isinstance(h, dict) and h.get("mode") not in (None, "serial"):
            attempt(f"history[{h_i}] serial", lambda d, h_i=h_i: (d["history"][h_i].pop("mode"), d["history"][h_i].pop("workers", None)))
    for h_i, h in enumerate(cur.get("history") or []):
        if isinstance(h, dict) and h.get("reuse_object"):
            attempt(f"history[{h_i}]: a separate Task object", lambda d, h_i=h_i: d["history"][h_i].pop("reuse_object"))
    if cur.get("debug"):
        attempt("debug off", lambda d: d.__setitem__("debug", False))
    # 4. configuration
    cfg = cur.get("config")
    if isinstance(cfg, dict):
        if cfg.get("early_stopping") is not None:
            attempt("no early stopping", lambda d: d["config"].pop("early_stopping"))
        if cfg.get("fitness_error") is not None:
            attempt("fitness_error->None", lambda d: d["config"].__setitem__("fitness_error", None))
        base = scenario.base_configs().get(cur.get("optimizer"), {}).get("params", {})
        for k in list(cur.get("perturbed") or []):
            def reset(d, k=k):
                if k in base:
                    d["config"][k] = copy.deepcopy(base[k])
                else:
                    d["config"].pop(k, None)
                d["perturbed"] = [x for x in d["perturbed"] if x != k]
            attempt(f"{k}->base", reset)
        if base and cfg.get("population_size") != base.get("population_size"):
            attempt("population_size->base",
                    lambda d: d["config"].__setitem__("population_size", base["population_size"]))
        # cycles: descend
        for c in (1, 2, 3, 5):
            if cur["config"].get("max_cycles", 0) > c:
                if attempt(f"max_cycles->{c}", lambda d, c=c: d["config"].__setitem__("max_cycles", c)):
                    break
    # 5. task: shrink a single cont_multi variable
    task = cur.get("task")
    if isinstance(task, dict) and len(task.get("vars", [])) == 1 and task["vars"][0]["type"] in ("cont_multi",) \
            and "multi" not in task.get("objective", {}):
        for k in (1, 2, 3):
            v = cur["task"]["vars"][0]
            if len(v["lb"]) > k:
                def shrink(d, k=k):
                    v = d["task"]["vars"][0]
                    v["lb"], v["ub"] = v["lb"][:k], v["ub"][:k]
                    ob = d["task"]["objective"]
                    for key in ("shift", "w"):
                        if ob.get(key):
                            ob[key] = ob[key][:k]
                if attempt(f"dimension->{k}", shrink):
                    break
    return cur, n[0], log
