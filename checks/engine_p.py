"""Engine P — paired / sequenced optimize() calls under one simulator.

``Session`` wraps one ``Sim``; ``session.call(...)`` performs one observed
``optimize()`` on a given instance with a given *entropy label* (two calls that
must see "the same OS entropy" get the same label) and a given ambient
generator state.
"""
from __future__ import annotations

import contextlib
import copy
import hashlib
import io

import numpy as np

from sim import faults as faults_mod
from sim import install, kernel
from . import engine_g
from .oracles_g import _deep_equal


class CallRecord:
    __slots__ = ("result", "dump", "exc", "exc_type", "exc_msg", "exc_origin", "steps", "obj_calls", "np_draws",
                 "py_draws", "np_seed_calls", "generations", "events_before_exc", "injected", "digest", "deadlock",
                 "step_limit")

    def __init__(self):
        for s in self.__slots__:
            setattr(self, s, None)


def dump_result(res):
    if res is None:
        return None
    return {
        "evolution": [[copy.deepcopy(a.model_dump()) for a in g.agents] for g in res.evolution],
        "rates": list(res.rates),
        "best": copy.deepcopy(res.best_solution.model_dump()) if res.best_solution is not None else None,
    }


def first_difference(a, b):
    """Human-readable location of the first difference between two result dumps (None if equal)."""
    if a is None or b is None:
        return None if a is b else "one run has no result"
    if len(a["evolution"]) != len(b["evolution"]):
        return f"{len(a['evolution'])} vs {len(b['evolution'])} generations"
    for k, (ga, gb) in enumerate(zip(a["evolution"], b["evolution"])):
        if len(ga) != len(gb):
            return f"generation {k}: {len(ga)} vs {len(gb)} agents"
        for i, (x, y) in enumerate(zip(ga, gb)):
            for key in x:
                if not _deep_equal(x.get(key), y.get(key)):
                    return f"generation {k} agent {i} field {key!r}: {str(x.get(key))[:60]} vs {str(y.get(key))[:60]}"
    if not _deep_equal(a["rates"], b["rates"]):
        return f"rates {a['rates'][:4]}... vs {b['rates'][:4]}..."
    if not _deep_equal(a["best"], b["best"]):
        return "best_solution differs"
    return None


class Session:
    def __init__(self, seed, sched=None, faults=None, step_cap=3_000_000, keep_events=0):
        install.install()
        self.sim = kernel.Sim(seed, sched=sched, step_cap=step_cap, keep_events=keep_events)
        self.fp = faults_mod.FaultPlan(faults)
        self.sim.fault_plan = self.fp
        self.fp.setup(self.sim)
        self.out = io.StringIO()
        self._cm = None
        self.cur_opt = None
        self.cur = None
        self._slots = {}
        sim = self.sim

        def on_generation(sim_, opt, agents, task_type):
            if opt is self.cur_opt and self.cur is not None:
                self.cur.generations += 1

        def on_obj_call(sim_, task, tdesc, x):
            if self.cur is not None:
                self.cur.obj_calls += 1
            self.n_obj += 1
            sim_.event("obj_call", "")
            self.fp.on_obj_call(sim_, self.n_obj)

        def on_step(sim_, opt, phase):
            if phase == "begin" and opt is self.cur_opt and self.cur is not None:
                self.cur.steps += 1

        self.n_obj = 0
        sim.obs["on_generation"] = on_generation
        sim.obs["on_obj_call"] = on_obj_call
        sim.obs["on_step"] = on_step

    def __enter__(self):
        kernel.ACTIVE = self.sim
        self.sim.adopt_main()
        self._cm = contextlib.redirect_stdout(self.out)
        self._cm.__enter__()
        return self

    def __exit__(self, *a):
        try:
            self._cm.__exit__(*a)
        finally:
            try:
                self.sim.teardown()
            finally:
                kernel.ACTIVE = None
        return False

    # -- ambient state of the (simulated) process
    def set_ambient(self, label):
        """Put both global generators of the main context into a state that is a function of ``label`` only."""
        ctx = self.sim.main_ctx
        ctx.np_rs.seed(kernel.H(self.sim.seed, "ambient", label) % (2 ** 32))
        ctx.py_rng.seed(kernel.H(self.sim.seed, "ambient-py", label))

    def perturb_ambient(self, k_np, k_py, reseed):
        """Other code in the process uses / reseeds the global generators."""
        import random as pyrandom
        for _ in range(k_np):
            np.random.random()
        for _ in range(k_py):
            pyrandom.random()
        if reseed:
            np.random.seed(kernel.H(self.sim.seed, "garbage") % (2 ** 32))
            pyrandom.seed(kernel.H(self.sim.seed, "garbage-py"))
        self.sim.count("fault_fired:ambient_rng_history")

    def call(self, opt, task, mode="serial", workers=None, entropy_label=None, fault_reset=False, kwargs=None):
        sim = self.sim
        rec = CallRecord()
        rec.steps = rec.obj_calls = rec.generations = 0
        self.cur_opt, self.cur = opt, rec
        sim._t_start = kernel._real_monotonic()        # the wall budget is per optimize() call, not per session
        sim.entropy_label = entropy_label
        sim._entropy_by_label.pop(repr(entropy_label), None)     # every call starts the label's sequence afresh
        c0 = dict(sim.counters)
        d0 = sum(c.ndraws for c in sim.ctxs)
        ev0 = sim.nevents
        kw = dict(kwargs or {})
        if mode is not None:
            kw["mode"] = mode
        if workers is not None:
            kw["workers"] = workers
        try:
            rec.result = opt.optimize(task, **kw)
        except kernel.SimAbort:
            raise
        except BaseException as e:
            engine_g.raise_if_harness_fault(e)
            rec.exc = e
            rec.exc_type = type(e).__name__
            rec.exc_msg = str(e)[:300]
            rec.exc_origin = engine_g.exc_origin(e)
            rec.injected = faults_mod.is_injected(e)
        finally:
            sim.entropy_label = None
            self.cur_opt, self.cur = None, None
        rec.dump = dump_result(rec.result)
        rec.np_draws = sum(c.ndraws for c in sim.ctxs) - d0
        rec.py_draws = sim.counters.get("stdlib_random_draws", 0) - c0.get("stdlib_random_draws", 0)
        rec.np_seed_calls = sim.counters.get("np_seed_calls", 0) - c0.get("np_seed_calls", 0)
        rec.events_before_exc = sim.nevents - ev0
        rec.deadlock = sim.deadlock
        rec.step_limit = sim.step_limit_hit
        return rec
