"""Engine-P properties: C07 (seeded reproducibility), C08 (instance history), C09 (config/task
untouched, crash-point sweep), C12 (max f == min -f), C18 (uniform construction API)."""
from __future__ import annotations

import copy
import json
import random
import time

from sim import install, kernel
from sim.kernel import H
from workload import scenario, tasks
from workload.scenario import CONT_FAMILIES, FAMILIES

from . import engine_g, engine_p, gprops, minimize, oracles_g
from .engine_p import Session, first_difference
from .oracles_g import _deep_equal

N_RUNS = {
    "C07": (6000, 50000), "C08": (4500, 40000), "C09": (1700, 14000), "C12": (8000, 60000), "C18": (5500, 45000),
}
SEEDS = [0, 1, 42, 2 ** 31 - 1, 123456789, 2 ** 32 - 1, 7]


def _optimizers(pid):
    names = scenario.optimizer_names()
    if pid == "C12":
        allowed = set(oracles_g.classification("direction_agnostic.json")["optimizers"])
        names = [n for n in names if n in allowed]
    return names


gprops.G_PROPS["C09"] = dict(oracles=["c09_obs"], families=FAMILIES, modes=["serial", "thread", "process"],
                             n_quick=3000, n_thorough=30000, opts={"extreme_p": 0.0, "extreme_every": 2, "small_pop_p": 0.2})


def plan(pid, tier, seed, n_override=None):
    n = n_override or N_RUNS[pid][0 if tier == "quick" else 1]
    names = _optimizers(pid)
    r = random.Random(H(seed, pid, tier, "cells"))
    order = list(names)
    r.shuffle(order)
    jobs = [{"i": i, "seed": H(seed, pid, tier, i), "pid": pid, "tier": tier, "optimizer": order[i % len(order)]}
            for i in range(n)]
    if pid == "C09":
        # observational part: plain engine-G runs (all families, modes, histories) with before/after dumps
        ng = max(50, n * 2) if n_override else None
        for j in gprops.plan("C09", tier, seed, n_override=ng):
            jobs.append(dict(j, i=n + j["i"], kind="observational", optimizer=j["cell"][0]))
    return jobs


# ----------------------------------------------------------------------------- descriptors
def make_desc(job):
    pid, seed, opt = job["pid"], job["seed"], job["optimizer"]
    r = random.Random(H(seed, "p-workload"))
    tier = job["tier"]
    cyc = (1, 8) if tier == "quick" else (1, 25)
    d = {"kind": pid, "seed": seed, "optimizer": opt}
    if pid == "C07":
        fam = r.choice(["cont_multi", "cont_multi", "cont_mixed", "cont_single", "discrete", "binary", "permutation",
                        "mixed", "multi_objective"])
        d["task"] = scenario.gen_task(r, fam)
        d["task"]["seed"] = r.choice(SEEDS)
        d["config"], d["perturbed"] = scenario.gen_config(r, opt, engine_g.make_config, cycles=cyc, perturb_p=0.15)
        d["ambient"] = {"np": r.choice([0, 1, 7, 100]), "py": r.choice([0, 1, 5, 50]), "reseed": r.random() < 0.5,
                        "other_run": r.random() < 0.3}
        if r.random() < 0.3:
            d["ambient"] = {"np": r.randrange(1, 50), "py": 0, "reseed": False, "other_run": False}
        rfp = random.Random(H(seed, "c07-failed-pooled-run"))
        if rfp.random() < 0.2:
            # between the two seeded runs, a pooled run (same process) is aborted by a failing objective evaluation
            d["ambient"]["failed_pooled_run"] = {"mode": rfp.choice(["thread", "thread", "process"]),
                                                 "workers": rfp.choice([1, 2, 3, 4]), "at": rfp.randrange(1, 12),
                                                 "exc": rfp.choice([None, "ValueError", "TypeError", "KeyError"]),
                                                 "sched": scenario.gen_sched(rfp)}
        rmt = random.Random(H(seed, "c07-multitask"))
        if rmt.random() < 0.15:
            # the same seeded serial runs, launched as trials of the multitask utility
            d["via_multitask"] = {"n_trials": rmt.choice([2, 2, 3]), "n_jobs": rmt.choice([2, 3])}
    elif pid == "C08":
        fam = r.choice(["cont_multi", "cont_multi", "cont_mixed", "multi_objective", "discrete", "binary"])
        d["task"] = scenario.gen_task(r, fam)
        # histories end by different stop criteria: cycle budget, fitness_error (large threshold), early stopping
        d["config"], d["perturbed"] = scenario.gen_config(r, opt, engine_g.make_config, cycles=(2, cyc[1]),
                                                          perturb_p=0.1, stop_opts=False)
        if random.Random(H(seed, "c08-longer")).random() < 0.25:
            # schedules inside an algorithm (shrinking zones, decaying rates) only pass their switch points in longer runs
            d["config"]["max_cycles"] = random.Random(H(seed, "c08-longer-n")).choice([11, 12, 15, 20, 30, 40])
        stop = r.choice(["cycles", "cycles", "fitness_error", "early_stopping"])
        if stop == "fitness_error":
            d["config"]["fitness_error"] = r.choice([0.3, 0.9, 10.0])
        elif stop == "early_stopping":
            d["config"]["early_stopping"] = {"patience": r.randrange(1, 3), "min_delta": r.choice([1e-2, 1.0])}
        d["stop_kind"] = stop
        hist = []
        for _ in range(r.choice([1, 1, 2])):
            u = r.random()
            if u < 0.4:
                hist.append({"task": "same"})
            elif u < 0.65:
                # same search space, another objective / direction / weight vector
                hist.append({"task": scenario.other_objective(r, d["task"])})
            else:
                hist.append({"task": scenario.gen_task(r, r.choice(["cont_multi", "cont_mixed", "cont_single"]))})
        # earlier runs may have used another solver mode (an instance driven by Multitask, or interactively)
        rm = random.Random(H(seed, "c08-history-modes"))
        for h in hist:
            if rm.random() < 0.4:
                h["mode"] = rm.choice(["thread", "process"])
                h["workers"] = rm.choice([1, 2, 4, 8])
        for h in hist:
            if rm.random() < 0.2:
                h["scribble_result"] = True       # the caller edits the earlier result in place before the next run
        d["ops"] = hist
        d["abort_first_at"] = r.randrange(1, 40) if r.random() < 0.15 else None
        if r.random() < 0.35:
            d0, _ = scenario.gen_config(r, opt, engine_g.make_config, cycles=(2, cyc[1]), perturb_p=1.0, stop_opts=False)
            if r.random() < 0.6:
                d0["max_cycles"] = d["config"]["max_cycles"]
            if r.random() < 0.6:
                d0["population_size"] = d["config"]["population_size"]
            try:
                engine_g.make_config(opt, d0)
                d["history_config"] = d0
            except Exception:
                pass
    elif pid == "C09":
        fam = r.choice(FAMILIES)
        mode = r.choice(["serial", "serial", "thread", "process"])
        g = scenario.gen_scenario(seed, opt, fam, mode, engine_g.make_config, tier="quick",
                                  opts={"cycles": (1, 5), "perturb_p": 0.15, "p_no_faults": 0.7})
        d.update({k: g[k] for k in ("config", "perturbed", "task", "mode", "workers", "sched", "faults")})
        d["n_points"] = 8 if tier == "quick" else 24
        d["crash_points"] = None            # filled from the fault-free twin unless given (replay)
    elif pid == "C12":
        fam = r.choice(["cont_multi", "cont_multi", "cont_single", "cont_mixed", "multi_objective", "discrete",
                        "binary", "mixed", "permutation"])
        d["task"] = scenario.gen_task(r, fam, minmax="max")
        d["config"], d["perturbed"] = scenario.gen_config(r, opt, engine_g.make_config, cycles=cyc, perturb_p=0.5,
                                                          stop_opts=False)
        d["faults"] = scenario.gen_faults(r, "serial", 0, p_none=0.6, kinds=scenario.STREAM_FAULTS)
        d["debug"] = r.random() < 0.12
        if random.Random(H(seed, "c12-raw-direction")).random() < 0.1:
            d["task"]["minmax_raw"] = True
        ob = d["task"]["objective"]
        if "multi" not in ob and r.random() < 0.15:
            lows, highs, _ = scenario.var_ranges(d["task"]["vars"])
            if lows:
                ax = r.randrange(len(lows))
                ob["penalty"] = {"axis": ax, "thr": lows[ax] + r.uniform(0.2, 0.8) * (highs[ax] - lows[ax]),
                                 "side": r.choice(["above", "below"]), "value": "-inf"}   # worst value of a max task
    elif pid == "C18":
        fam = r.choice(["cont_multi", "cont_multi", "cont_mixed", "discrete"])
        d["task"] = scenario.gen_task(r, fam)
        d["config"], d["perturbed"] = scenario.gen_config(r, opt, engine_g.make_config, cycles=cyc, perturb_p=0.5)
        d["mode"] = r.choice(["serial", "serial", "thread", "process"])
        d["workers"] = r.choice([1, 2, 4]) if d["mode"] != "serial" else None
        d["sched"] = scenario.gen_sched(r) if d["mode"] != "serial" else {"policy": "fifo"}
        # candidate dictionaries that the config model may accept or reject
        base = d["config"]
        cands = []
        keys = sorted(base)
        for _ in range(4):
            q = copy.deepcopy(base)
            k = r.choice(keys)
            how = r.choice(["drop", "str", "neg", "huge", "zero", "none", "float"])
            if how == "drop":
                q.pop(k)
            elif how == "str":
                q[k] = "abc"
            elif how == "neg":
                q[k] = -1 if not isinstance(q[k], list) else [-1 for _ in q[k]]
            elif how == "huge":
                q[k] = 10 ** 9 if not isinstance(q[k], list) else [10 ** 9 for _ in q[k]]
            elif how == "zero":
                q[k] = 0 if not isinstance(q[k], list) else [0 for _ in q[k]]
            elif how == "none":
                q[k] = None
            else:
                q[k] = 0.5 if not isinstance(q[k], list) else [0.5 for _ in q[k]]
            cands.append({"mutated": k, "how": how, "params": q})
        d["candidates"] = cands
        # the instance may have been configured differently and used before (HyperTuner re-configures one
        # instance for every grid point): an earlier configuration d0 and a run with it
        if r.random() < 0.5:
            d0, _ = scenario.gen_config(r, opt, engine_g.make_config, cycles=(1, 4), perturb_p=1.0)
            if r.random() < 0.6:
                d0["max_cycles"] = d["config"]["max_cycles"]
            if r.random() < 0.6:
                d0["population_size"] = d["config"]["population_size"]
                try:
                    engine_g.make_config(opt, d0)
                except Exception:
                    d0 = None
            d["prior_config"] = d0
    return d


def _cfg(desc, params=None):
    return engine_g.make_config(desc["optimizer"], params if params is not None else desc["config"])


def _cls(desc):
    return install.OPTIMIZERS[desc["optimizer"]]


# ----------------------------------------------------------------------------- C07
def _result_digest(call):
    import hashlib
    if call.exc is not None:
        return "exc:" + str(call.exc_type)
    # what the statement names: every position, cost, fitness and rate of every generation (floats by their hex
    # representation; algorithm-specific extra fields may hold arbitrary objects and are left out)
    def f(v):
        if isinstance(v, float):
            return v.hex()
        if isinstance(v, (list, tuple)):
            return [f(e) for e in v]
        try:
            return float(v).hex() if not isinstance(v, (int, str, bool, type(None))) else v
        except Exception:
            return repr(type(v))
    core = {"evolution": [[[f(a.get("position")), f(a.get("cost")), f(a.get("fitness"))] for a in g]
                          for g in call.dump["evolution"]],
            "rates": f(call.dump["rates"]),
            "best": [f(call.dump["best"].get("position")), f(call.dump["best"].get("cost")),
                     f(call.dump["best"].get("fitness"))] if call.dump.get("best") else None}
    return hashlib.sha256(json.dumps(core, sort_keys=True).encode()).hexdigest()[:24]


def cross_process_sample(jobs, results, k_labelled=150, k_other=40):
    """Jobs whose run A is repeated in a fresh interpreter under another PYTHONHASHSEED ("in different processes")."""
    lab, other = [], []
    for j, r in zip(jobs, results):
        if not r or "harness_error" in r or "harness_timeout" in r or r.get("uninformative"):
            continue
        (lab if r.get("has_labels") else other).append(j["i"])
    return lab[:k_labelled] + other[:k_other]


def cross_process_replay(desc):
    """Replay of a [*, diverged, across_processes] violation: run A in two fresh interpreters with different hash salts."""
    import os, subprocess, sys, tempfile
    here = os.path.dirname(os.path.abspath(__file__))
    d = {k: v for k, v in desc.items() if k != "cross_process"}
    with tempfile.NamedTemporaryFile("w", suffix=".json", delete=False) as f:
        json.dump(d, f)
        path = f.name
    digs = []
    try:
        for hs in ("0", "4242"):
            p = subprocess.run([sys.executable, os.path.join(here, "main.py"), "C07", "--result-digest-of", path],
                               env=dict(os.environ, PYTHONHASHSEED=hs), capture_output=True, text=True, timeout=600)
            digs.append(p.stdout.strip().splitlines()[-1] if p.returncode == 0 and p.stdout.strip() else f"error:{p.stderr[-200:]}")
    finally:
        os.unlink(path)
    if digs[0] != digs[1]:
        return [{"cls": [desc["optimizer"], "diverged", "across_processes"],
                 "msg": f"run with seed={desc['task'].get('seed')} gives result digest {digs[0]} under PYTHONHASHSEED=0 and "
                        f"{digs[1]} under PYTHONHASHSEED=4242 (task family {desc['task'].get('family')})"}]
    return []


def run_c07(desc, stats):
    out = []
    opt = desc["optimizer"]
    with Session(desc["seed"], sched=(desc["ambient"].get("failed_pooled_run") or {}).get("sched")) as s:
        s.set_ambient("A")
        try:
            task_a = tasks.build_task(desc["task"])
        except Exception as e:
            return [{"cls": ["seed_rejected", "Task", type(e).__name__],
                     "msg": f"Task(seed={desc['task']['seed']!r}) is rejected: {type(e).__name__}: {str(e)[:150]}"}]
        a = s.call(_cls(desc)(_cfg(desc)), task_a, entropy_label="A")
        if a.exc is not None and a.obj_calls == 0 and a.np_draws == 0 and a.exc_type in ("TypeError", "ValueError") \
                and a.exc_origin and a.exc_origin[1] == "optimize":
            return [{"cls": ["seed_rejected", "optimize", a.exc_type],
                     "msg": f"optimize() on a task carrying the integer seed {desc['task']['seed']} fails before any "
                            f"work: {a.exc_type}: {a.exc_msg[:150]}"}]
        amb = desc["ambient"]
        s.perturb_ambient(amb["np"], amb["py"], amb["reseed"])
        if amb.get("other_run"):
            other = dict(desc, optimizer="ParticleSwarmOptimization")
            tdesc = dict(desc["task"], seed=None)
            try:
                s.call(install.OPTIMIZERS["ParticleSwarmOptimization"](engine_g.make_config(
                    "ParticleSwarmOptimization", dict(scenario.base_configs()["ParticleSwarmOptimization"]["params"],
                                                      max_cycles=2))), tasks.build_task(tdesc), entropy_label="other")
            except Exception:
                pass
        fpr = amb.get("failed_pooled_run")
        if fpr:
            k_ = s.n_obj + fpr["at"]
            s.fp.raise_at = [k_]
            s.fp.raise_exc = {k_: fpr.get("exc")}
            try:
                pso = install.OPTIMIZERS["ParticleSwarmOptimization"](engine_g.make_config(
                    "ParticleSwarmOptimization", dict(scenario.base_configs()["ParticleSwarmOptimization"]["params"],
                                                      max_cycles=2)))
                fr = s.call(pso, tasks.build_task(dict(desc["task"], seed=None)), mode=fpr["mode"],
                            workers=fpr["workers"], entropy_label="failed-pooled")
                if fr.injected:
                    s.sim.count("fault_fired:aborted_pooled_run_before_seeded_run")
            except kernel.SimAbort:
                raise
            except Exception:
                pass
            s.fp.raise_at = []
        task_b = tasks.build_task(desc["task"])
        b = s.call(_cls(desc)(_cfg(desc)), task_b, entropy_label="B")
        stats["steps"] = a.steps
        stats["result_digest"] = _result_digest(a)
        stats["py_draws"] = a.py_draws
        stats["digest"] = s.sim.digest()
        stats["counters"] = dict(s.sim.counters)
        stats["nevents"] = s.sim.nevents
        if "SimStepLimit" in (a.exc_type, b.exc_type):
            stats["uninformative"] = True
            return out
        if a.exc is not None or b.exc is not None:
            if (a.exc is None) != (b.exc is None) or a.exc_type != b.exc_type:
                out.append({"cls": [opt, "diverged", "outcome"],
                            "msg": f"run A: {a.exc_type}, run B: {b.exc_type} on equal seeded tasks"})
            else:
                stats["uninformative"] = True
            return out
        diff = first_difference(a.dump, b.dump)
        if diff is not None:
            src = "stdlib_random" if (a.py_draws or b.py_draws) else ("reseed" if a.np_seed_calls != 1 else "other")
            out.append({"cls": [opt, "diverged", src],
                        "msg": f"two serial runs with seed={desc['task']['seed']} differ ({diff}); draws from the "
                               f"stdlib generator during run A: {a.py_draws}; ambient perturbation {amb}"})
        vm = desc.get("via_multitask")
        if vm and diff is None:
            import pyvolutionary as pv
            s.sim.obs.setdefault("cpu_count", 4)
            try:
                mt = pv.Multitask(algorithms=(_cls(desc)(_cfg(desc)),), tasks=(tasks.build_task(desc["task"]),),
                                  modes=("serial",))
                mt.execute(n_trials=vm["n_trials"], n_jobs=vm["n_jobs"])
                sols = [c["solution"] for c in mt._df2[0].iloc[:, 0]]
                s.sim.count("multitask_trials_compared", len(sols))
                for k, sol in enumerate(sols):
                    dk = first_difference(a.dump, engine_p.dump_result(sol))
                    if dk is not None:
                        out.append({"cls": [opt, "diverged", "multitask_trial"],
                                    "msg": f"trial {k + 1} of Multitask.execute (serial mode, task seed "
                                           f"{desc['task']['seed']}) differs from the plain seeded serial run: {dk}"})
                        break
            except kernel.SimAbort:
                raise
            except BaseException as e:
                engine_g.raise_if_harness_fault(e)
                out.append({"cls": [opt, "diverged", "outcome"],
                            "msg": f"the plain seeded run returns a result, the same run as a Multitask trial raises "
                                   f"{type(e).__name__}: {str(e)[:120]}"})
            stats["digest"] = s.sim.digest()
    return out


# ----------------------------------------------------------------------------- C08
def run_c08(desc, stats):
    out = []
    opt = desc["optimizer"]
    with Session(desc["seed"]) as s:
        # the reference - a freshly constructed instance - runs first, in the still pristine process, so that state
        # leaking through class attributes or module globals (shared by all instances) cannot contaminate it too
        y = _cls(desc)(_cfg(desc))
        s.set_ambient("obs")
        r2 = s.call(y, tasks.build_task(desc["task"]), entropy_label="obs")
        if desc.get("abort_first_at"):
            # fault variant: the first earlier run on the used instance is aborted by a failing objective evaluation
            s.fp.raise_at = [s.n_obj + desc["abort_first_at"]]
        x = _cls(desc)(_cfg(desc, desc.get("history_config")))
        task_obs = tasks.build_task(desc["task"])
        aborted = False
        completed = 0
        for i, op in enumerate(desc.get("ops") or []):
            t = task_obs if op["task"] == "same" else tasks.build_task(op["task"])
            s.set_ambient(("hist", i))
            h = s.call(x, t, mode=op.get("mode", "serial"), workers=op.get("workers"), entropy_label=("hist", i))
            if op.get("mode", "serial") != "serial":
                s.sim.count("history_runs_pooled")
            if h.injected:
                aborted = True
            elif h.exc is None:
                completed += 1
                if op.get("scribble_result"):
                    engine_g._scribble_result(h.result)
                    s.sim.count("history_result_scribbled")
        if desc.get("history_config"):
            # the used instance is re-configured to the observed configuration (what HyperTuner does per grid point)
            x.set_config_parameters(copy.deepcopy(desc["config"]))
        s.set_ambient("obs")
        r1 = s.call(x, task_obs, entropy_label="obs")
        stats["steps"] = r2.steps
        stats["digest"] = s.sim.digest()
        stats["counters"] = dict(s.sim.counters)
        stats["nevents"] = s.sim.nevents
        stats["history_len"] = completed
        if r1.injected or r2.injected or "SimStepLimit" in (r1.exc_type, r2.exc_type):
            # (a call cut off by the harness's event / wall budget gives no verdict)
            stats["uninformative"] = True
            return out
        vs = []
        if (r1.exc is None) != (r2.exc is None) or (r1.exc is not None and r1.exc_type != r2.exc_type):
            vs.append(("outcome", f"used instance: {r1.exc_type or 'result'}, fresh instance: {r2.exc_type or 'result'}"))
        elif r1.exc is None:
            if r1.steps != r2.steps:
                vs.append(("cycle_count", f"the used instance executed {r1.steps} cycle(s), a fresh instance "
                                          f"{r2.steps} (history of {completed} completed run(s))"))
            if len(r1.dump["rates"]) != len(r2.dump["rates"]) or not _deep_equal(r1.dump["rates"], r2.dump["rates"]):
                if len(r1.dump["rates"]) > len(r2.dump["rates"]):
                    vs.append(("rates_prefix", f"result of the used instance holds {len(r1.dump['rates'])} rates, a "
                                               f"fresh instance {len(r2.dump['rates'])}"))
            d = first_difference({**r1.dump, "rates": []}, {**r2.dump, "rates": []})
            if d is not None and not vs:
                vs.append(("trajectory", f"same configuration, task, entropy and ambient state, but the used "
                                         f"instance differs from a fresh one: {d}"))
        else:
            stats["uninformative"] = True
        if aborted and completed == 0:
            # the property quantifies over completed earlier runs: report as a probe only
            if vs:
                stats["probe_reuse_after_abort_differs"] = 1
            return out
        for kind, msg in vs:
            out.append({"cls": [opt, kind], "msg": msg + f" [stop criterion of the history: {desc.get('stop_kind')}]"})
    return out


# ----------------------------------------------------------------------------- C09
def _diff_fields(before, after, prefix=""):
    diffs = []
    if isinstance(before, dict) and isinstance(after, dict):
        for k in sorted(set(before) | set(after)):
            if k not in before or k not in after:
                diffs.append(prefix + str(k))
            elif not _deep_equal(before[k], after[k]):
                sub = _diff_fields(before[k], after[k], prefix + str(k) + ".") \
                    if isinstance(before[k], dict) and isinstance(after[k], dict) else []
                diffs.extend(sub or [prefix + str(k)])
    elif not _deep_equal(before, after):
        diffs.append(prefix.rstrip("."))
    return diffs


def _c09_one(desc, faults, stats, label, call_kwargs=None):
    opt = desc["optimizer"]
    out = []
    with Session(desc["seed"], sched=desc.get("sched"), faults=(desc.get("faults") or []) + faults) as s:
        cfg = _cfg(desc)
        task = tasks.build_task(desc["task"])
        o = _cls(desc)(cfg)
        cb, tb = engine_g.dump_model(cfg), engine_g.dump_task(task)
        kw = dict(mode=desc.get("mode", "serial"), workers=desc.get("workers"))
        if call_kwargs:
            kw.update(call_kwargs)
        r = s.call(o, task, mode=kw["mode"], workers=kw["workers"], entropy_label="c09")
        ca, ta = engine_g.dump_model(cfg), engine_g.dump_task(task)
        outcome = "returned" if r.exc is None else "raised"
        for f in _diff_fields(cb, ca):
            out.append({"cls": [opt, "config", f, outcome],
                        "msg": f"config field {f!r} changed from {str(_get(cb, f))[:60]} to {str(_get(ca, f))[:60]} "
                               f"after optimize() {outcome} ({label}, mode {kw['mode']})"})
        for f in _diff_fields(tb, ta):
            out.append({"cls": [opt, "task", f, outcome],
                        "msg": f"task field {f!r} changed after optimize() {outcome} ({label}, mode {kw['mode']})"})
        fired_here = any(v for k, v in s.sim.counters.items()
                         if k in ("fault_fired:objective_raise", "fault_fired:worker_crash"))
        if faults and fired_here and (r.deadlock or r.step_limit) and not s.sim.wall_limit_hit:
            # (a run that never reached its fault and does not terminate is C04's business, not this clause's)
            out.append({"cls": [opt, "hang_after_fault", kw["mode"]],
                        "msg": f"after {label} optimize() neither returned nor raised within the step budget "
                               f"(deadlock={r.deadlock})"})
        for k, v in s.sim.counters.items():
            if k.startswith("fault_fired:"):
                stats["fired"][k[12:]] = stats["fired"].get(k[12:], 0) + v
        stats["nevents"] = stats.get("nevents", 0) + s.sim.nevents
        stats["digest_parts"].append(s.sim.digest())
        return out, r


def _get(d, path):
    for p in path.split("."):
        if isinstance(d, dict):
            d = d.get(p)
    return d


def run_c09(desc, stats):
    stats["fired"] = {}
    stats["digest_parts"] = []
    out, twin = _c09_one(desc, [], stats, "fault-free run")
    stats["steps"] = twin.steps
    if twin.step_limit or twin.deadlock:
        # the fault-free run itself does not terminate within the budget (C04's business): no sweep on top of it
        stats["uninformative"] = True
        stats["digest"] = "-".join(stats.pop("digest_parts"))[:64]
        return out
    n = twin.obj_calls
    pts = desc.get("crash_points")
    if pts is None:
        r = random.Random(H(desc["seed"], "crash-points"))
        k1 = min(n, 4)
        pts = list(range(1, k1 + 1))
        k = k1
        while k < n:
            k = max(k + 1, int(k * 1.7))
            if k < n:
                pts.append(k)
        if n > 0:
            pts += [n, max(1, n - 1)]
        pts = sorted(set(pts))
        while len(pts) > desc.get("n_points", 8):
            pts.pop(r.randrange(len(pts)))
    reached = 0
    for k in pts:
        vs, r = _c09_one(desc, [{"kind": "objective_raise", "at": k}], stats, f"objective failure at evaluation #{k}")
        reached += 1 if r.injected else 0
        out.extend(vs)
    stats["crash_points"] = len(pts)
    stats["crash_points_reached"] = reached
    # invalid calls
    vs, _ = _c09_one(desc, [], stats, "invalid mode", {"mode": "bogus"})
    out.extend(vs)
    vs, _ = _c09_one(desc, [], stats, "workers=0", {"workers": 0})
    out.extend(vs)
    if desc.get("mode") == "process":
        vs, r = _c09_one(desc, [{"kind": "worker_crash", "at_task": 1 + H(desc["seed"], "wc") % 5}], stats,
                         "worker process crash")
        out.extend(vs)
    stats["digest"] = "-".join(stats.pop("digest_parts"))[:64]
    # de-duplicate classes
    seen, uniq = set(), []
    for v in out:
        k = json.dumps(v["cls"])
        if k not in seen:
            seen.add(k)
            uniq.append(v)
    return uniq


# ----------------------------------------------------------------------------- C12
def _negated(task_desc):
    t = copy.deepcopy(task_desc)
    t["minmax"] = "min"
    ob = t["objective"]
    for spec in (ob["multi"] if "multi" in ob else [ob]):
        spec["negate"] = not spec.get("negate", False)
    return t


def run_c12(desc, stats):
    out = []
    opt = desc["optimizer"]
    recs = []
    for which, tdesc in (("max", desc["task"]), ("min", _negated(desc["task"]))):
        with Session(desc["seed"], faults=desc.get("faults")) as s:
            s.set_ambient("c12")
            o_ = _cls(desc)(_cfg(desc), debug=True) if desc.get("debug") else _cls(desc)(_cfg(desc))
            r = s.call(o_, tasks.build_task(tdesc), entropy_label="c12")
            recs.append(r)
            if which == "max":
                stats["steps"] = r.steps
                stats["digest"] = s.sim.digest()
                stats["counters"] = dict(s.sim.counters)
                stats["nevents"] = s.sim.nevents
                stats["fired"] = {k[12:]: v for k, v in s.sim.counters.items() if k.startswith("fault_fired:")}
    a, b = recs
    if "SimStepLimit" in (a.exc_type, b.exc_type):
        stats["uninformative"] = True
        return out
    if a.exc is not None or b.exc is not None:
        if (a.exc is None) != (b.exc is None):
            out.append({"cls": [opt, "outcome"], "msg": f"max f: {a.exc_type or 'result'} ({a.exc_msg}); "
                                                        f"min -f: {b.exc_type or 'result'} ({b.exc_msg})"})
        else:
            stats["uninformative"] = True
        return out
    if len(a.dump["evolution"]) != len(b.dump["evolution"]):
        out.append({"cls": [opt, "length"], "msg": f"{len(a.dump['evolution'])} generations when maximising f, "
                                                   f"{len(b.dump['evolution'])} when minimising -f"})
        return out
    for k, (ga, gb) in enumerate(zip(a.dump["evolution"], b.dump["evolution"])):
        if len(ga) != len(gb):
            out.append({"cls": [opt, "length"], "msg": f"generation {k}: {len(ga)} vs {len(gb)} agents"})
            return out
        for i, (x, y) in enumerate(zip(ga, gb)):
            if not oracles_g._pos_equal(x["position"], y["position"]):
                out.append({"cls": [opt, "positions_diverge"],
                            "msg": f"generation {k} agent {i}: position {str(x['position'])[:70]} when maximising f, "
                                   f"{str(y['position'])[:70]} when minimising -f (same seed and configuration)"})
                return out
            if not oracles_g._eqf(x["cost"], -y["cost"]):
                out.append({"cls": [opt, "cost_not_negated"],
                            "msg": f"generation {k} agent {i}: cost {x['cost']!r} (max f) vs {y['cost']!r} (min -f)"})
                return out
    if not oracles_g._pos_equal(a.dump["best"]["position"], b.dump["best"]["position"]) or \
            not oracles_g._eqf(a.dump["best"]["cost"], -b.dump["best"]["cost"]):
        out.append({"cls": [opt, "best_differs"], "msg": f"best_solution {a.dump['best']['cost']!r} (max f) vs "
                                                         f"{b.dump['best']['cost']!r} (min -f)"})
    return out


# ----------------------------------------------------------------------------- C18
def run_c18(desc, stats):
    out = []
    opt = desc["optimizer"]
    cls = _cls(desc)
    import pyvolutionary as pv
    cfg_cls = getattr(pv, scenario.base_configs()[opt]["config_class"])
    stats["by_products"] = {"config_equal": 0, "candidates": 0, "rejected": 0}
    with Session(desc["seed"], sched=desc.get("sched")) as s:
        sim = s.sim
        task = tasks.build_task(desc["task"])
        # 1. construct without configuration
        try:
            o = cls()
        except Exception as e:
            stats["digest"] = sim.digest()
            stats["nevents"] = sim.nevents
            stats["steps"] = 0
            return [{"cls": [opt, "cannot_construct_empty"],
                     "msg": f"{opt}() without a configuration raises {type(e).__name__}: {str(e)[:150]}"}]
        # 2. refuses to optimise, before doing any work
        r0 = s.call(o, task, mode=desc.get("mode"), workers=desc.get("workers"), entropy_label="noconf")
        if r0.exc is None or not isinstance(r0.exc, ValueError):
            out.append({"cls": [opt, "no_error_without_config"],
                        "msg": f"optimize() without a configuration gave {r0.exc_type or 'a result'} instead of ValueError"})
        elif r0.np_seed_calls or r0.np_draws or r0.obj_calls or r0.steps or r0.generations:
            out.append({"cls": [opt, "work_before_rejection"],
                        "msg": f"before rejecting the missing configuration optimize() did work: seed calls "
                               f"{r0.np_seed_calls}, draws {r0.np_draws}, evaluations {r0.obj_calls}"})
        # 3./4. set_config_parameters accepts/rejects exactly what the config model accepts/rejects
        d = _plain_params(desc["config"])
        o.set_config_parameters(copy.deepcopy(d))
        want = cfg_cls(**copy.deepcopy(d))
        if o.configuration != want or type(o.configuration) is not cfg_cls:
            out.append({"cls": [opt, "config_mismatch"],
                        "msg": f"configuration after set_config_parameters(d) differs from {cfg_cls.__name__}(**d)"})
        else:
            stats["by_products"]["config_equal"] += 1
        # the caller may re-submit the very same dict object after changing it in place
        first = _plain_params(desc.get("prior_config") or {**d, "max_cycles": d["max_cycles"] + 1})
        try:
            cfg_cls(**copy.deepcopy(first))
            dd = copy.deepcopy(first)
            o3 = cls()
            o3.set_config_parameters(dd)
            dd.clear()
            dd.update(copy.deepcopy(d))
            o3.set_config_parameters(dd)
            stats["by_products"]["resubmitted_same_dict"] = 1
            if o3.configuration != want:
                out.append({"cls": [opt, "config_mismatch"],
                            "msg": f"set_config_parameters(d) with a dict object that was submitted before and then changed "
                                   f"in place leaves a configuration different from {cfg_cls.__name__}(**d)"})
        except Exception:
            pass
        for cand in desc.get("candidates") or []:
            q = _plain_params(cand["params"])
            stats["by_products"]["candidates"] += 1
            try:
                ref = cfg_cls(**copy.deepcopy(q))
                ref_err = None
            except Exception as e:
                ref, ref_err = None, e
            before = o.configuration
            try:
                o.set_config_parameters(copy.deepcopy(q))
                got_err = None
            except Exception as e:
                got_err = e
            if ref_err is not None:
                stats["by_products"]["rejected"] += 1
                if got_err is None:
                    out.append({"cls": [opt, "accepts_rejected_parameters"],
                                "msg": f"{cfg_cls.__name__} rejects {cand['mutated']}={q.get(cand['mutated'])!r} "
                                       f"({type(ref_err).__name__}) but set_config_parameters accepted it"})
                elif type(got_err) is not type(ref_err):
                    # the statement equates set_config_parameters(d) with building the config class from d: the
                    # rejection must be the one the config model itself raises (a pydantic ValidationError for
                    # out-of-range values; whatever the model's own validators raise for ill-typed ones)
                    out.append({"cls": [opt, "rejection_differs_from_config_model"],
                                "msg": f"{cfg_cls.__name__}(**d) raises {type(ref_err).__name__} but "
                                       f"set_config_parameters(d) raised {type(got_err).__name__}"})
                elif o.configuration is not before:
                    out.append({"cls": [opt, "config_replaced_on_rejection"],
                                "msg": "a rejected set_config_parameters call replaced the previous configuration"})
            else:
                if got_err is not None:
                    out.append({"cls": [opt, "rejects_valid_parameters"],
                                "msg": f"{cfg_cls.__name__} accepts {cand['mutated']}={q.get(cand['mutated'])!r} but "
                                       f"set_config_parameters raised {type(got_err).__name__}"})
                elif o.configuration != ref:
                    out.append({"cls": [opt, "config_mismatch"],
                                "msg": f"configuration after set_config_parameters differs from the config model's"})
    # the two runs must see the same schedule as well: run each in its own session with equal seeds
    res = []
    for how in ("set_config_parameters", "constructor"):
        with Session(desc["seed"], sched=desc.get("sched")) as s2:
            oo = cls() if how == "set_config_parameters" else cls(cfg_cls(**copy.deepcopy(d)))
            if how == "set_config_parameters":
                if desc.get("prior_config"):
                    oo.set_config_parameters(_plain_params(desc["prior_config"]))
                    s2.set_ambient("prior")
                    s2.call(oo, tasks.build_task(desc["task"]), mode="serial", entropy_label="prior")
                oo.set_config_parameters(copy.deepcopy(d))
            s2.set_ambient("run")
            rr = s2.call(oo, tasks.build_task(desc["task"]), mode=desc.get("mode"), workers=desc.get("workers"),
                         entropy_label="run")
            res.append((rr, s2.sim.digest()))
            if how == "constructor":
                stats["steps"] = rr.steps
                stats["digest"] = s2.sim.digest()
                stats["nevents"] = s2.sim.nevents
                stats["counters"] = dict(s2.sim.counters)
    (ra, da), (rb, db) = res
    if "SimStepLimit" in (ra.exc_type, rb.exc_type):
        stats["uninformative"] = True
    elif (ra.exc is None) != (rb.exc is None) or (ra.exc is not None and ra.exc_type != rb.exc_type):
        out.append({"cls": [opt, "run_differs"], "msg": f"set_config_parameters path: {ra.exc_type or 'result'}; "
                                                        f"constructor path: {rb.exc_type or 'result'}"})
    elif ra.exc is None:
        diff = first_difference(ra.dump, rb.dump)
        if diff is not None or (da != db and not desc.get("prior_config")):
            out.append({"cls": [opt, "run_differs"],
                        "msg": f"run after set_config_parameters(d) differs from run of {opt}(Config(**d)): "
                               f"{diff or 'event logs differ'}"})
    else:
        stats["uninformative"] = True
    seen, uniq = set(), []
    for v in out:
        k = json.dumps(v["cls"])
        if k not in seen:
            seen.add(k)
            uniq.append(v)
    return uniq


def _plain_params(p):
    return copy.deepcopy(p)


RUNNERS = {"C07": run_c07, "C08": run_c08, "C09": run_c09, "C12": run_c12, "C18": run_c18}


def execute(pid, desc):
    stats = {}
    vs = RUNNERS[pid](desc, stats)
    return vs, stats


def run_job(job):
    t0 = time.time()
    if job.get("kind") == "observational":
        r = gprops.run_job(job)
        r.update({"uninformative": False, "stats": {}, "result_digest": None, "has_labels": False,
                  "opkey": json.dumps([r["cell"], r["digest"]])})
        return r
    desc = make_desc(job)
    vs, stats = execute(job["pid"], desc)
    return {
        "i": job["i"], "seed": job["seed"], "cell": [job["optimizer"], desc.get("task", {}).get("family"),
                                                     desc.get("mode", "serial")],
        "violations": vs, "desc": desc if vs else None, "digest": stats.get("digest"),
        "steps": stats.get("steps") or 0, "nevents": stats.get("nevents", 0), "stats": {
            k: v for k, v in stats.items() if k not in ("digest", "counters")},
        "counters": {k: v for k, v in (stats.get("counters") or {}).items() if not k.startswith("fault_fired:")},
        "fired": stats.get("fired") or {k[12:]: v for k, v in (stats.get("counters") or {}).items()
                                        if k.startswith("fault_fired:")},
        "uninformative": bool(stats.get("uninformative")), "wall": time.time() - t0,
        "opkey": _opkey(job["pid"], desc), "result_digest": stats.get("result_digest"),
        "has_labels": any(v.get("labels") for v in desc.get("task", {}).get("vars", [])),
    }


def _opkey(pid, desc):
    """What makes two engine-P cases distinct: the operation / fault sequence."""
    if pid == "C07":
        return json.dumps([desc["optimizer"], desc["task"]["family"], desc["task"]["seed"], desc["ambient"]], sort_keys=True)
    if pid == "C08":
        return json.dumps([desc["optimizer"], desc["task"]["family"], desc.get("stop_kind"),
                           [("same" if o["task"] == "same" else o["task"]["family"]) for o in desc["ops"]],
                           desc.get("abort_first_at")])
    if pid == "C09":
        return json.dumps([desc["optimizer"], desc["task"]["family"], desc["mode"], desc["config"]["max_cycles"],
                           desc["config"]["population_size"], sorted(f["kind"] for f in desc.get("faults") or [])])
    if pid == "C12":
        return json.dumps([desc["optimizer"], desc["task"]["family"], desc["config"]["max_cycles"],
                           desc["config"]["population_size"], sorted(f["kind"] for f in desc.get("faults") or [])])
    return json.dumps([desc["optimizer"], desc["task"]["family"], desc.get("mode"),
                       [(c["mutated"], c["how"]) for c in desc.get("candidates") or []]])


def replay(pid, desc):
    if pid == "C07" and desc.get("cross_process"):
        return cross_process_replay(desc)
    if "kind" not in desc:          # engine-G descriptor (observational part of C09)
        rec = engine_g.run_scenario(desc)
        return gprops.apply_oracles(pid, desc, rec, desc.get("seed", 0))
    vs, _ = execute(pid, desc)
    return vs


def minimise(pid, desc, cls):
    def still(d):
        return any(v["cls"] == cls for v in replay(pid, d))
    d, n, log = minimize.minimise(desc, cls, still, budget=40)
    msg = None
    for v in replay(pid, d):
        if v["cls"] == cls:
            msg = v["msg"]
    return {"desc": d, "n": n, "log": log, "msg": msg}


RULE = {
    "C07": "each case = two serial optimize() calls of one optimizer on equal tasks carrying the same integer seed, "
           "separated by an ambient perturbation (other code draws from / reseeds both global generators, an "
           "unrelated optimizer runs); distinct = distinct (optimizer, family, seed, perturbation) tuples; "
           "non-trivial = both runs completed >= 1 cycle",
    "C08": "each case = a history of 1-2 earlier optimize() calls on one instance (same/other task, ended by cycle "
           "budget / fitness_error / early stopping; optionally an aborted run) followed by the observed call, compared "
           "with the same call on a fresh instance under the same entropy label and ambient state; distinct = distinct "
           "(optimizer, family, stop kind, history shape) tuples; non-trivial = observed call completed >= 1 cycle",
    "C09": "each case = one scenario (optimizer, config, task, mode) run fault-free and then once per crash point "
           "(objective failure injected at evaluation #k, k swept over initialisation / first cycle / geometric ladder / "
           "last evaluation), plus invalid-mode, workers=0 and (process mode) worker-crash calls; config/task dumps "
           "compared before/after each; distinct = distinct (optimizer, family, mode, cycles, population, fault kinds)",
    "C12": "each case = two executions under the same simulated entropy: maximise f vs minimise -f, compared "
           "generation by generation; distinct = distinct (optimizer, family, cycles, population, fault kinds)",
    "C18": "each case = construct(); optimize() must refuse before any work; set_config_parameters(d) for accepted and "
           "mutated dictionaries vs the config model; run(set_config_parameters(d)) vs run(ctor(Config(**d))) under "
           "equal seeds; distinct = distinct (optimizer, family, mode, candidate mutations)",
}


def evidence(pid, tier, seed, jobs, results, good, wall):
    distinct = set()
    fired, probes = {}, {}
    events = cycles = 0
    uninformative = 0
    extra = {}
    for j, r in good:
        if r["steps"] >= 1 and not r["uninformative"]:
            distinct.add(r["opkey"])
        uninformative += 1 if r["uninformative"] else 0
        for k, v in (r.get("fired") or {}).items():
            fired[k] = fired.get(k, 0) + v
        for k, v in (r.get("counters") or {}).items():
            probes[k] = probes.get(k, 0) + v
        events += r.get("nevents") or 0
        cycles += r["steps"]
        for k, v in (r.get("stats") or {}).items():
            if isinstance(v, (int, float)) and not isinstance(v, bool) and k not in ("steps", "nevents"):
                extra[k] = extra.get(k, 0) + v
            elif k == "by_products" and isinstance(v, dict):
                bp = extra.setdefault("by_products", {})
                for kk, vv in v.items():
                    bp[kk] = bp.get(kk, 0) + vv
    samples = [{"job": j["i"], "seed": j["seed"], "case": make_desc(j)} for j, r in good[:2] if j.get("kind") != "observational"]
    cov = {
        "evaluations": len(good), "distinct_nontrivial": len(distinct), "rule": RULE[pid], "samples": samples,
        "seeds": {"verif_seed": seed, "derivation": "seed_i = H(VERIF_SEED, property, tier, i)",
                  "first": jobs[0]["seed"] if jobs else None, "last": jobs[-1]["seed"] if jobs else None},
        "simulated_time": {"events_logical_ticks": events, "optimizer_cycles_of_observed_runs": cycles},
        "faults_fired": fired, "probes": probes, "uninformative_cases": uninformative, "totals": extra,
        "optimizers_covered": len({r["cell"][0] for j, r in good}),
        "components": {
            "real": ["pyvolutionary (all of it)", "numpy RandomState / stdlib random distributions", "pydantic"],
            "stub": ["OS entropy for np.random.seed(None)", "ambient generator state of the process",
                     "concurrent.futures (pooled modes)", "objective functions"]},
    }
    return {"property_id": pid, "tier": tier, "seed": seed, "level": "exploration", "coverage": cov,
            "assumptions": ["deterministic objectives", "two executions given the same entropy label and ambient "
                            "generator state see the same random streams",
                            "sampling, not enumeration"], "wall_s": wall, "violations": 0}
