"""C06, second clause: an invalid call is rejected with ValueError/ValidationError before any cycle runs."""
from __future__ import annotations

import copy
import random
import time

from sim import install
from sim.kernel import H
from workload import scenario, tasks

from . import engine_g
from .engine_p import Session

CASES = ["no_configuration", "unknown_mode", "workers_zero", "workers_negative", "weights_fewer", "weights_more",
         "negative_weight", "inverted_bounds", "equal_bounds", "length_mismatch", "binary_zero_size"]


def make_desc(job):
    r = random.Random(H(job["seed"], "invalid"))
    opt = job["cell"][0]
    case = CASES[job["i"] % len(CASES)]
    fam = "multi_objective" if case.startswith("weights") else r.choice(["cont_multi", "cont_mixed", "discrete"])
    task = scenario.gen_task(r, fam)
    cfg, _ = scenario.gen_config(r, opt, engine_g.make_config, cycles=(1, 4), perturb_p=0.0)
    mode = r.choice(["serial", "thread", "process"])
    d = {"kind": "invalid", "case": case, "seed": job["seed"], "optimizer": opt, "task": task, "config": cfg,
         "mode": mode, "workers": r.choice([1, 2, 4]) if mode != "serial" else None,
         "sched": scenario.gen_sched(r) if mode != "serial" else {"policy": "fifo"}}
    d["task_valid"] = copy.deepcopy(d["task"])
    d["followup"] = r.choice(["none", "none", "mode", "both"])
    if case == "weights_fewer":
        d["task"]["weights"] = d["task"]["weights"][:-1]
    elif case == "weights_more":
        d["task"]["weights"] = d["task"]["weights"] + [0.5]
    elif case == "unknown_mode":
        d["bad_mode"] = r.choice(["bogus", "Serial", "processes", "", "parallel"])
    elif case == "workers_zero":
        d["bad_workers"] = 0
    elif case == "workers_negative":
        d["bad_workers"] = r.choice([-1, -4])
    return d


def run(desc):
    install.install()
    import pyvolutionary as pv
    out = []
    case = desc["case"]
    stats = {"steps": 0, "nevents": 0, "digest": None}

    def add(kind, msg):
        out.append({"cls": [kind, case], "msg": msg})

    # -- constructor-level rejections (by-product: no simulation content)
    if case in ("negative_weight", "inverted_bounds", "equal_bounds", "length_mismatch", "binary_zero_size"):
        try:
            if case == "negative_weight":
                t = copy.deepcopy(desc["task"])
                t["objective"] = {"multi": [t["objective"], t["objective"]]} if "multi" not in t["objective"] else t["objective"]
                t["weights"] = [1.0] * (len(t["objective"]["multi"]) - 1) + [-0.5]
                tasks.build_task(t)
            elif case == "inverted_bounds":
                pv.ContinuousVariable(name="x", lower_bound=2.0, upper_bound=-1.0)
            elif case == "equal_bounds":
                pv.ContinuousMultiVariable(name="x", lower_bounds=[0.0, 1.0], upper_bounds=[1.0, 1.0])
            elif case == "length_mismatch":
                pv.ContinuousMultiVariable(name="x", lower_bounds=[0.0, 0.0], upper_bounds=[1.0])
            else:
                pv.BinaryVariable(name="b", n_vars=0)
            add("accepted_invalid", f"{case}: the definition was accepted")
        except ValueError:
            pass
        except Exception as e:
            add("wrong_exception", f"{case}: rejected with {type(e).__name__} instead of ValueError/ValidationError")
        stats["digest"] = case
        return out, stats

    cls = install.OPTIMIZERS[desc["optimizer"]]
    with Session(desc["seed"], sched=desc.get("sched")) as s:
        task = tasks.build_task(desc["task"])
        if case == "no_configuration":
            o = cls()
        else:
            o = cls(engine_g.make_config(desc["optimizer"], desc["config"]))
        mode, workers = desc.get("mode"), desc.get("workers")
        if case == "unknown_mode":
            mode = desc["bad_mode"]
        if case in ("workers_zero", "workers_negative"):
            workers = desc["bad_workers"]
            mode = mode if mode != "serial" else "thread"
        r = s.call(o, task, mode=mode, workers=workers, entropy_label="invalid")
        stats.update({"steps": r.steps, "nevents": s.sim.nevents, "digest": s.sim.digest(), "obj_calls": r.obj_calls,
                      "deadlock": r.deadlock})
        if s.sim.wall_limit_hit and not r.deadlock:
            pass            # cut off by the harness's wall budget (machine under load): no verdict
        elif r.deadlock or r.step_limit:
            add("hang", f"{desc['optimizer']}: the invalid call deadlocked / did not return (mode {mode})")
        elif r.exc is None:
            add("accepted_invalid", f"{desc['optimizer']}: optimize() returned a result for an invalid call "
                                    f"(mode={mode!r}, workers={workers!r})")
        elif not isinstance(r.exc, ValueError):
            add("wrong_exception", f"{desc['optimizer']}: rejected with {r.exc_type}: {r.exc_msg[:120]} instead of "
                                   f"ValueError/ValidationError")
        elif r.steps > 0:
            add("cycle_before_rejection", f"{desc['optimizer']}: {r.steps} optimization cycle(s) ran before the "
                                          f"invalid call was rejected")
        elif case in ("no_configuration", "unknown_mode", "workers_zero", "workers_negative") and r.obj_calls > 0:
            stats["probe_objective_called_before_rejection"] = 1
        # a rejected call must not poison the instance: the next *valid* call on it behaves like the same call on
        # a fresh instance (first clause of C06, for an instance whose history contains a rejected call)
        if r.exc is not None and desc.get("task_valid") is not None:
            if case == "no_configuration":
                o.set_config_parameters(copy.deepcopy(desc["config"]))
            fk = {"none": {}, "mode": {"mode": desc.get("mode")},
                  "both": {"mode": desc.get("mode"), "workers": desc.get("workers")}}[desc.get("followup", "none")]
            s.set_ambient("followup")
            r2 = s.call(o, tasks.build_task(desc["task_valid"]), mode=fk.get("mode"), workers=fk.get("workers"),
                        entropy_label="followup")
            fresh = cls(engine_g.make_config(desc["optimizer"], desc["config"]))
            s.set_ambient("followup")
            # a fresh instance defaults to serial mode with 4 workers; the used one keeps the last valid mode
            r3 = s.call(fresh, tasks.build_task(desc["task_valid"]), mode=fk.get("mode"), workers=fk.get("workers"),
                        entropy_label="followup")
            stats["followups"] = 1
            if r3.exc is None and r2.exc is not None and not r2.injected:
                add("valid_call_fails_after_rejected_call",
                    f"{desc['optimizer']}: after the rejected call ({case}) a valid optimize({fk}) on the same "
                    f"instance raised {r2.exc_type}: {r2.exc_msg[:120]}; the same call on a fresh instance returns a result")
    return out, stats


def run_job(job):
    t0 = time.time()
    desc = make_desc(job)
    vs, st = run(desc)
    return {"i": job["i"], "seed": job["seed"], "cell": [job["cell"][0], "invalid:" + desc["case"], desc.get("mode")],
            "violations": vs, "desc": desc if vs else None, "digest": st["digest"], "sched_digest": "",
            "nevents": st["nevents"], "steps": 0, "obj_calls": st.get("obj_calls", 0), "obj_ctx": {}, "switches": 0,
            "fired": {}, "counters": {"invalid_calls": 1, "valid_followup_calls": st.get("followups", 0),
                                      **({"objective_called_before_rejection": 1}
                                         if st.get("probe_objective_called_before_rejection") else {})},
            "fault_kinds": ["invalid_call"], "exc": None, "injected": False, "family": "invalid", "step_limit": False,
            "deadlock": bool(st.get("deadlock")), "wall": time.time() - t0, "thread_crashes": 0, "completion_perms": [],
            "pool_sections": 0, "greedy_sections": 0, "ok_result": False, "invalid_case": desc["case"]}
