"""Check driver.

  check <ID> [--tier quick|thorough] [--n N] [--jobs J]
  check <ID> --replay <file>

exit 0: property held on everything explored (known findings are listed, not counted)
exit 1: at least one unlisted violation; one line `VIOLATION property=<id> replay=<path>` each
exit 2: harness error (timeouts, non-deterministic digest, ...): `HARNESS-ERROR ...`, never a VIOLATION line
"""
from __future__ import annotations

import argparse
import hashlib
import json
import os
import re
import subprocess
import sys
import time

HERE = os.path.dirname(os.path.dirname(os.path.abspath(__file__)))
if HERE not in sys.path:
    sys.path.insert(0, HERE)

from checks import farm, findings  # noqa: E402
from sim import install  # noqa: E402

ENGINE_OF = {
    "C01": "G", "C02": "G", "C03": "G", "C05": "G", "C06": "G", "C10": "G", "C11": "G", "C15": "G", "C17": "G",
    "C04": "S4", "C07": "P", "C08": "P", "C09": "P", "C12": "P", "C18": "P", "C19": "S19", "C20": "S20",
}


def get_module(pid):
    eng = ENGINE_OF[pid]
    if eng == "G":
        from checks import mod_g
        return mod_g
    if eng == "P":
        from checks import mod_p
        return mod_p
    if eng == "S4":
        from checks import mod_c04
        return mod_c04
    if eng == "S19":
        from checks import mod_c19
        return mod_c19
    if eng == "S20":
        from checks import mod_c20
        return mod_c20
    raise KeyError(pid)


def slug(cls):
    s = "-".join(str(c) for c in cls)
    s = re.sub(r"[^A-Za-z0-9_.-]+", "_", s)
    return s[:120]


def write_replay(pid, cls, msg, desc, seed, tier, minimised, log, root=None):
    root = root or os.path.join(HERE, "replays", pid)
    os.makedirs(root, exist_ok=True)
    h = hashlib.sha1(json.dumps(desc, sort_keys=True, default=str).encode()).hexdigest()[:8]
    path = os.path.join(root, f"{slug(cls)}-{h}.json")
    json.dump({"property": pid, "engine": ENGINE_OF[pid], "class": cls, "message": msg, "desc": desc,
               "verif_seed": seed, "tier": tier, "minimised": minimised, "minimisation_log": log},
              open(path, "w"), indent=1, default=str)
    return path


def do_replay(pid, path):
    mod = get_module(pid)
    data = json.load(open(path))
    install.install()
    vs = mod.replay(pid, data["desc"])
    want = data["class"]
    hit = [v for v in vs if v["cls"] == want]
    if hit:
        print(f"VIOLATION property={pid} replay={os.path.abspath(path)}")
        print(f"  class={json.dumps(want)}")
        print(f"  {hit[0]['msg']}")
        return 1
    print(f"replay of {path}: class {json.dumps(want)} NOT reproduced; observed classes: "
          f"{[v['cls'] for v in vs]}")
    return 0


def _minimise_job(job):
    mod = get_module(job["pid"])
    return mod.minimise(job["pid"], job["desc"], job["cls"])


def fresh_digests(pid, tier, seed, idxs, n_override, hashseed, field="digest"):
    env = dict(os.environ)
    env["PYTHONHASHSEED"] = str(hashseed)
    env["VERIF_SEED"] = str(seed)
    cmd = [sys.executable, os.path.abspath(__file__), pid, "--tier", tier, "--digests", ",".join(map(str, idxs)),
           "--field", field]
    if n_override:
        cmd += ["--n", str(n_override)]
    p = subprocess.run(cmd, env=env, capture_output=True, text=True, timeout=900)
    if p.returncode != 0:
        raise RuntimeError(f"digest child failed: {p.stderr[-500:]}")
    return json.loads(p.stdout.strip().splitlines()[-1])


def main(argv=None):
    ap = argparse.ArgumentParser()
    ap.add_argument("pid")
    ap.add_argument("--tier", default=os.environ.get("VERIF_TIER") or "quick")
    ap.add_argument("--replay")
    ap.add_argument("--n", type=int, default=None)
    ap.add_argument("--jobs", type=int, default=int(os.environ.get("VERIF_JOBS") or 16))
    ap.add_argument("--digests", default=None, help="internal: print digests of the given job indices")
    ap.add_argument("--field", default="digest", help="internal: which field --digests prints")
    ap.add_argument("--result-digest-of", default=None, help="internal (C07): result digest of run A of a descriptor file")
    ap.add_argument("--no-determinism", action="store_true")
    ap.add_argument("--no-evidence", action="store_true")
    ap.add_argument("--evidence-dir", default=os.path.join(HERE, "evidence"))
    ap.add_argument("--replay-dir", default=None)
    args = ap.parse_args(argv)
    pid = args.pid
    if args.tier not in ("quick", "thorough"):
        args.tier = "quick"
    try:
        seed = int(os.environ.get("VERIF_SEED") or 0)
    except ValueError:
        seed = int.from_bytes(hashlib.sha256(os.environ["VERIF_SEED"].encode()).digest()[:6], "big")

    if args.replay:
        return do_replay(pid, args.replay)
    if args.result_digest_of:
        from checks import mod_p
        install.install()
        st = {}
        mod_p.run_c07(json.load(open(args.result_digest_of)), st)
        print(st.get("result_digest"))
        return 0

    mod = get_module(pid)
    install.install()
    t0 = time.time()
    jobs = mod.plan(pid, args.tier, seed, args.n)

    if args.digests is not None:
        idxs = [int(x) for x in args.digests.split(",") if x != ""]
        out = {}
        for i in idxs:
            r = mod.run_job(jobs[i])
            out[str(i)] = r.get(args.field)
        print(json.dumps(out))
        return 0

    print(f"[{pid}] tier={args.tier} VERIF_SEED={seed} runs={len(jobs)} jobs={args.jobs} repo={install.REPO}",
          flush=True)
    timeout_s = 240
    log_path = os.path.join(HERE, "evidence", f".{pid}.farm.log")
    os.makedirs(os.path.dirname(log_path), exist_ok=True)
    results, timed_out = farm.run_jobs(jobs, mod.run_job, nproc=args.jobs, timeout_s=timeout_s,
                                       init_fn=install.install, log_path=log_path)
    harness_errors = []
    for j, r in zip(jobs, results):
        if r is None:
            harness_errors.append(f"job {j['i']} was not run")
        elif "harness_error" in r:
            harness_errors.append(f"job {j['i']} seed {j['seed']}: {r['harness_error']} {r.get('traceback', '')[-600:]}")
    good = [(j, r) for j, r in zip(jobs, results) if r is not None and "harness_error" not in r
            and "harness_timeout" not in r]

    # --- violations: per class, first occurrence
    known = findings.Known(pid)
    per_class = {}
    n_viol_runs = 0
    known_seen_runs = 0
    for j, r in good:
        new_here = False
        for v in r.get("violations") or []:
            e = known.lookup(v["cls"])
            if e is not None:
                known.note(e)
                known_seen_runs += 1
                continue
            new_here = True
            k = json.dumps(v["cls"])
            if k not in per_class:
                per_class[k] = {"cls": v["cls"], "msg": v["msg"], "desc": r.get("desc"), "n": 0, "job": j["i"],
                                "seed": j["seed"]}
            per_class[k]["n"] += 1
        n_viol_runs += 1 if new_here else 0
    if hasattr(mod, "batch_oracle"):
        for v in mod.batch_oracle(pid, jobs, results, known):
            k = json.dumps(v["cls"])
            if k not in per_class:
                per_class[k] = {"cls": v["cls"], "msg": v["msg"], "desc": v.get("desc"), "n": v.get("n", 1),
                                "job": v.get("job", -1), "seed": v.get("seed", seed), "no_minimise": True}

    # --- C07, "in different processes": run A of a sample of jobs is repeated in a fresh interpreter with another
    #     hash salt; a different result is a randomness source that escapes the seed
    cross = {"jobs": 0, "diverged": 0}
    if pid == "C07" and hasattr(mod, "cross_process_sample"):
        idxs = mod.cross_process_sample(jobs, results) if args.tier == "quick" else \
            mod.cross_process_sample(jobs, results, k_labelled=1200, k_other=300)
        if idxs:
            try:
                fd = fresh_digests(pid, args.tier, seed, idxs, args.n, hashseed=777, field="result_digest")
                for i_s, dg in fd.items():
                    cross["jobs"] += 1
                    r = results[int(i_s)]
                    if dg != r.get("result_digest"):
                        cross["diverged"] += 1
                        desc = dict(mod.make_desc(jobs[int(i_s)]), cross_process=True)
                        cls = [desc["optimizer"], "diverged", "across_processes"]
                        if known.lookup(cls) is not None:
                            known.note(known.lookup(cls))
                            continue
                        k = json.dumps(cls)
                        if k not in per_class:
                            per_class[k] = {"cls": cls, "n": 0, "job": int(i_s), "seed": jobs[int(i_s)]["seed"],
                                            "desc": desc, "no_minimise": True,
                                            "msg": f"run A (seed={desc['task'].get('seed')}, family "
                                                   f"{desc['task'].get('family')}) gives result digest "
                                                   f"{r.get('result_digest')} in this process (PYTHONHASHSEED="
                                                   f"{os.environ.get('PYTHONHASHSEED')}) and {dg} in a fresh interpreter "
                                                   f"with PYTHONHASHSEED=777"}
                        per_class[k]["n"] += 1
            except Exception as e:
                harness_errors.append(f"cross-process slice: {e}")

    # --- timeouts: a run that cannot finish is a harness problem unless it reproduces without the farm
    for idx in timed_out:
        harness_errors.append(f"job {idx} (seed {jobs[idx]['seed']}, {jobs[idx].get('cell')}) exceeded {timeout_s}s wall")

    # --- minimise + replay files for unlisted classes
    viol_lines = []
    classes = sorted(per_class.values(), key=lambda c: c["job"])
    to_min = [c for c in classes if c.get("desc") is not None and not c.get("no_minimise")][:12]
    if to_min:
        mjobs = [{"pid": pid, "desc": c["desc"], "cls": c["cls"]} for c in to_min]
        mres, mto = farm.run_jobs(mjobs, _minimise_job, nproc=min(args.jobs, len(mjobs)), timeout_s=180,
                                  init_fn=install.install, log_path=log_path)
        for c, mr in zip(to_min, mres):
            if isinstance(mr, dict) and mr.get("desc") is not None and "harness_error" not in mr:
                c["min_desc"], c["min_log"], c["min_msg"] = mr["desc"], mr.get("log", []), mr.get("msg")
    for c in classes:
        desc = c.get("min_desc") or c.get("desc")
        minimised = c.get("min_desc") is not None
        path = write_replay(pid, c["cls"], c.get("min_msg") or c["msg"], desc, seed, args.tier, minimised,
                            c.get("min_log", []), args.replay_dir and os.path.join(args.replay_dir, pid))
        c["replay"] = path
        viol_lines.append(f"VIOLATION property={pid} replay={path}")
    # confirm (a sample of) the replay files in a fresh interpreter
    for c in classes[:3]:
        if c.get("desc") is None:
            continue
        try:
            p = subprocess.run([sys.executable, os.path.abspath(__file__), pid, "--replay", c["replay"]],
                               capture_output=True, text=True, timeout=300,
                               env=dict(os.environ, PYTHONHASHSEED="4242"))
            c["replay_confirmed"] = (p.returncode == 1 and "VIOLATION" in p.stdout)
            if not c["replay_confirmed"] and c.get("min_desc") is not None:
                # fall back to the un-minimised descriptor
                path = write_replay(pid, c["cls"], c["msg"], c["desc"], seed, args.tier, False, ["minimised file "
                                    "did not reproduce in a fresh interpreter"],
                                    args.replay_dir and os.path.join(args.replay_dir, pid))
                c["replay"] = path
        except Exception as e:  # pragma: no cover
            c["replay_confirmed"] = False

    # --- determinism slice
    det = {"pairs": 0, "mismatches": 0, "fresh_interpreter_pairs": 0}
    if not args.no_determinism and good:
        k = 8 if args.tier == "quick" else 48
        idxs = [j["i"] for j, r in good[:k]]
        again, _ = farm.run_jobs([jobs[i] for i in idxs], mod.run_job, nproc=min(4, args.jobs), timeout_s=timeout_s,
                                 init_fn=install.install, log_path=log_path)
        for i, r2 in zip(idxs, again):
            if (r2 or {}).get("wall_limit") or (results[i] or {}).get("wall_limit"):
                continue          # cut off by the wall budget: where it was cut depends on the machine's load
            det["pairs"] += 1
            if not r2 or r2.get("digest") != results[i].get("digest"):
                det["mismatches"] += 1
                harness_errors.append(f"non-deterministic digest for job {i} (same interpreter settings)")
        try:
            fd = fresh_digests(pid, args.tier, seed, idxs[:max(4, k // 2)], args.n, hashseed=12345)
            for i_s, dg in fd.items():
                det["pairs"] += 1
                det["fresh_interpreter_pairs"] += 1
                if dg != results[int(i_s)].get("digest"):
                    det["mismatches"] += 1
                    harness_errors.append(f"digest of job {i_s} differs in a fresh interpreter (PYTHONHASHSEED=12345)")
        except Exception as e:
            harness_errors.append(f"determinism child: {e}")

    wall = time.time() - t0
    # --- evidence
    ev = mod.evidence(pid, args.tier, seed, jobs, results, good, wall)
    # vacuity guard: a batch in which most runs did nothing (every run failing before its first cycle, say) proves
    # nothing and must not look like a pass
    nontrivial = ev["coverage"].get("distinct_nontrivial", 0)
    if jobs and nontrivial < 0.5 * len(jobs):
        harness_errors.append(f"vacuous batch: only {nontrivial} of {len(jobs)} runs were non-trivial "
                              f"(on the reviewed tree more than 80 % are)")
    if not args.no_evidence:
        ev["coverage"]["determinism"] = det
        if pid == "C07":
            ev["coverage"]["cross_process_pairs"] = cross
        ev["coverage"]["harness_timeouts"] = len(timed_out)
        ev["coverage"]["harness_errors"] = len(harness_errors)
        ev["coverage"]["known_findings_seen"] = {k: v for k, v in known.seen.items()}
        ev["coverage"]["runs_per_hour"] = int(len(good) / max(wall, 1e-9) * 3600)
        ev["coverage"]["violation_classes"] = [{"class": c["cls"], "runs": c["n"], "replay": c.get("replay"),
                                                "message": c["msg"][:300]} for c in classes]
        ev["violations"] = len(classes)
        ev["wall_s"] = round(wall, 2)
        os.makedirs(args.evidence_dir, exist_ok=True)
        tmp = os.path.join(args.evidence_dir, f".{pid}.json.tmp")
        json.dump(ev, open(tmp, "w"), indent=1, default=str)
        os.replace(tmp, os.path.join(args.evidence_dir, f"{pid}.json"))

    for line in known.lines(pid):
        print(line)
    for c, line in zip(classes, viol_lines):
        print(f"VIOLATION property={pid} replay={c['replay']}")
        print(f"  class={json.dumps(c['cls'])} runs={c['n']} first_job={c['job']} :: {c['msg'][:300]}")
    print(f"[{pid}] runs={len(good)}/{len(jobs)} wall={wall:.1f}s unlisted_violation_classes={len(classes)} "
          f"known_findings_seen={len(known.seen)} harness_errors={len(harness_errors)} "
          f"determinism={det['pairs'] - det['mismatches']}/{det['pairs']}")
    if classes:
        return 1
    if harness_errors:
        for h in harness_errors[:20]:
            print(f"HARNESS-ERROR property={pid} {h}")
        return 2
    return 0


if __name__ == "__main__":
    sys.exit(main())
