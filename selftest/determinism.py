"""Determinism self-test: one seed = one exactly repeatable execution.

For a sample of jobs of every check, the event-log digest must be identical
 (a) when the job is run twice in the same farm,
 (b) at another worker-farm size (1 vs 16 processes),
 (c) in a fresh interpreter under another PYTHONHASHSEED.
usage: determinism.py [--per-check N] [--checks C01,C11,...]
exit 0 = all digests equal; exit 2 = mismatch (harness error, blocks reporting).
"""
from __future__ import annotations

import argparse
import json
import os
import subprocess
import sys
import time

HERE = os.path.dirname(os.path.dirname(os.path.abspath(__file__)))
sys.path.insert(0, HERE)

from checks import farm, main as check_main  # noqa: E402
from sim import install  # noqa: E402


def run(pid, idxs, tier, seed, jobs_n, nproc):
    mod = check_main.get_module(pid)
    jobs = mod.plan(pid, tier, seed, jobs_n)
    res, to = farm.run_jobs([jobs[i] for i in idxs], mod.run_job, nproc=nproc, timeout_s=240, init_fn=install.install)
    return {i: (r or {}).get("digest") for i, r in zip(idxs, res)}


def main():
    ap = argparse.ArgumentParser()
    ap.add_argument("--per-check", type=int, default=120)
    ap.add_argument("--checks", default=",".join(sorted(check_main.ENGINE_OF)))
    ap.add_argument("--seed", type=int, default=int(os.environ.get("VERIF_SEED") or 0))
    args = ap.parse_args()
    install.install()
    t0 = time.time()
    pairs = mism = 0
    report = {}
    for pid in args.checks.split(","):
        n = args.per_check
        idxs = list(range(n))
        a = run(pid, idxs, "quick", args.seed, n, 16)
        b = run(pid, idxs, "quick", args.seed, n, 16)
        c = run(pid, idxs[: max(8, n // 4)], "quick", args.seed, n, 1)
        env = dict(os.environ, PYTHONHASHSEED="98765", VERIF_SEED=str(args.seed))
        sub = idxs[: max(8, n // 4)]
        p = subprocess.run([sys.executable, os.path.join(HERE, "checks", "main.py"), pid, "--tier", "quick", "--n", str(n),
                            "--digests", ",".join(map(str, sub))], env=env, capture_output=True, text=True, timeout=3600)
        d = json.loads(p.stdout.strip().splitlines()[-1]) if p.returncode == 0 else {}
        bad = []
        for i in idxs:
            pairs += 1
            if a[i] is None or a[i] != b[i]:
                bad.append((i, "rerun"))
        for i in c:
            pairs += 1
            if c[i] != a[i]:
                bad.append((i, "farm-size-1"))
        for i in sub:
            pairs += 1
            if d.get(str(i)) != a[i]:
                bad.append((i, "fresh-interpreter-hashseed"))
        mism += len(bad)
        report[pid] = {"jobs": n, "mismatches": bad[:10]}
        print(f"{pid}: {n} jobs x (rerun, farm-size 1 subset, fresh interpreter subset): {len(bad)} mismatches", flush=True)
    print(json.dumps({"pairs": pairs, "mismatches": mism, "wall_s": round(time.time() - t0, 1)}))
    json.dump({"pairs": pairs, "mismatches": mism, "report": report}, open(os.path.join(HERE, "selftest", "determinism_last.json"), "w"), indent=1)
    return 0 if mism == 0 else 2


if __name__ == "__main__":
    sys.exit(main())
