"""Stub validation: the simulated pools vs the real concurrent.futures executors.

Real executions are used to validate the *stub*, never to decide a property: for a handful of
scenarios the schedule-independent facts (result type, generation sizes, "initial population is
pairwise distinct: yes/no", exactly-once at the pool boundary) must agree between a real
ThreadPoolExecutor / ProcessPoolExecutor run and the simulated run.  A disagreement is a harness
error (exit 2, no VIOLATION line).
usage: stub_validation.py [--n 12]
"""
from __future__ import annotations

import argparse
import json
import os
import random
import sys

HERE = os.path.dirname(os.path.dirname(os.path.abspath(__file__)))
sys.path.insert(0, HERE)

from checks import engine_g  # noqa: E402
from sim import install  # noqa: E402
from workload import scenario, tasks  # noqa: E402


def facts(result, pop):
    pos = [tuple(a.position) for a in result.evolution[0].agents]
    return {"generations": len(result.evolution), "sizes_ok": all(len(g.agents) == pop for g in result.evolution),
            "initial_distinct": len(set(pos)) == len(pos), "n_initial": len(pos)}


def main():
    ap = argparse.ArgumentParser()
    ap.add_argument("--n", type=int, default=12)
    args = ap.parse_args()
    install.install()
    import pyvolutionary as pv
    r = random.Random(2024)
    names = ["ParticleSwarmOptimization", "GreyWolfOptimization", "KrillHerdOptimization", "WindDrivenOptimization",
             "DragonflyOptimization", "WhalesOptimization"]
    bad = 0
    rows = []
    for i in range(args.n):
        opt = names[i % len(names)]
        mode = ["process", "thread"][i % 2] if i % 3 else "process"
        workers = r.choice([2, 4, 8])
        tdesc = {"cls": "SimTask", "family": "cont_multi", "minmax": "min",
                 "vars": [{"type": "cont_multi", "name": "x", "lb": [-10.0] * 3, "ub": [10.0] * 3}],
                 "objective": {"family": "sphere", "shift": [1.0, -2.0, 0.5], "const": 1.0}}
        params = dict(scenario.base_configs()[opt]["params"], max_cycles=3, fitness_error=None)
        pop = params["population_size"]
        desc = {"seed": 1000 + i, "optimizer": opt, "config": params, "task": tdesc, "mode": mode, "workers": workers,
                "sched": {"policy": "roundrobin", "seed": i}, "faults": []}
        rec = engine_g.run_scenario(desc)
        sim_f = facts(rec.result, pop) if rec.result is not None else {"error": rec.exc_type}
        sim_f["exactly_once"] = all(s["n_futures"] == s["n_results"] and s["multiset_equal"] for s in rec.pool_sections)
        # the real thing (no simulation active: the namespace forwards to concurrent.futures)
        try:
            o = install.OPTIMIZERS[opt](engine_g.make_config(opt, params))
            res = o.optimize(tasks.build_task(tdesc), mode=mode, workers=workers)
            real_f = facts(res, pop)
        except Exception as e:
            real_f = {"error": type(e).__name__}
        keys = ["generations", "sizes_ok", "initial_distinct", "n_initial"]
        agree = all(sim_f.get(k) == real_f.get(k) for k in keys) and "error" not in sim_f and "error" not in real_f
        rows.append({"optimizer": opt, "mode": mode, "workers": workers, "sim": sim_f, "real": real_f, "agree": agree})
        print(f"{opt:32s} {mode:8s} w={workers}: sim={sim_f} real={real_f} {'OK' if agree else 'DISAGREE'}", flush=True)
        bad += 0 if agree else 1
    json.dump(rows, open(os.path.join(HERE, "selftest", "stub_validation_last.json"), "w"), indent=1)
    if bad:
        print(f"HARNESS-ERROR stub validation: {bad} disagreement(s) between simulated and real pools")
        return 2
    print("stub validation: simulated and real pools agree on all schedule-independent facts")
    return 0


if __name__ == "__main__":
    sys.exit(main())
