"""Sensitivity self-test: break one property on purpose in a scratch copy of the package and
confirm the property's check reports a replayable VIOLATION within a reduced budget.

usage: sensitivity.py [--only name,name] [--n N]
Not registered in MANIFEST (uses scratch space under /tmp, removed afterwards).
"""
from __future__ import annotations

import argparse
import json
import os
import shutil
import subprocess
import sys
import tempfile
import time

HERE = os.path.dirname(os.path.dirname(os.path.abspath(__file__)))
REPO = os.path.realpath(os.environ.get("VERIF_REPO", "/repo"))

# name -> (properties expected to catch it, [(file, old, new), ...])
MUTANTS = {
    "no_clip": (["C01", "C05"], [("pyvolutionary/models.py",
                                   "        return float(np.clip(value, self.lower_bound, self.upper_bound))\n",
                                   "        return float(value)\n")]),
    "max_sign_not_restored": (["C02"], [("pyvolutionary/models.py",
                                         '            return a.model_copy(update={"cost": -a.cost}, deep=True)\n',
                                         '            return a.model_copy(deep=True)\n')]),
    "best_is_worst": (["C03"], [("pyvolutionary/abstract.py",
                                 "            evolution=evolution, rates=self._errors, best_solution=self._best_agent, task_type=task.minmax\n",
                                 "            evolution=evolution, rates=self._errors, best_solution=self._worst_agent, task_type=task.minmax\n")]),
    "cycle_bound_gt": (["C04"], [("pyvolutionary/abstract.py", "        has_to_stop = cycle >= max_cycles\n",
                                  "        has_to_stop = cycle > max_cycles\n")]),
    "patience_ignored": (["C04"], [("pyvolutionary/abstract.py",
                                    "for diff in self._error_diffs[-patience:]])\n",
                                    "for diff in self._error_diffs[-1:]])\n")]),
    "fitness_error_strict": (["C04"], [("pyvolutionary/abstract.py", "            has_to_stop |= current_error <= fitness_error\n",
                                        "            has_to_stop |= current_error < fitness_error\n")]),
    "evaluate_uncorrected": (["C05"], [
        ("pyvolutionary/models.py", "        solution = self.correct_solution(x)\n        return self.objective_function(solution)\n",
         "        return self.objective_function(x)\n"),
        ("pyvolutionary/abstract.py", "        position = self._task.initial_solution(position)\n        cost = self._fcn(position)\n",
         "        raw = position\n        position = self._task.initial_solution(position)\n"
         "        cost = self._fcn(raw if raw is not None else position)\n")]),
    "pool_result_swapped": (["C11"], [("pyvolutionary/helpers.py",
                                              "    for i in parallel.as_completed(executors):\n        res.append(i.result())\n    return res\n",
                                              "    for i in parallel.as_completed(executors):\n        res.append(i.result())\n"
                                              "    return res[:-1] + res[:1] if len(res) > 7 else res\n")]),
    "greedy_flipped_in_pool": (["C11"], [("pyvolutionary/abstract.py",
                                          "            executors = [executor.submit(\n                self._greedy_select_agent, agent, new_population[idx]\n",
                                          "            executors = [executor.submit(\n                self._greedy_select_agent, new_population[idx], agent\n")]),
    "no_worker_reseed": (["C11"], [("pyvolutionary/helpers.py",
                                    "        else parallel.ProcessPoolExecutor(n_workers, initializer=_reseed_worker)\n",
                                    "        else parallel.ProcessPoolExecutor(n_workers)\n")]),
    "unknown_mode_falls_back": (["C06"], [("pyvolutionary/abstract.py",
                                           '                raise ValueError("Invalid mode. Possible values are \\"serial\\", \\"thread\\" and \\"process\\"")\n',
                                           '                self._mode = ModeSolver.SERIAL\n')]),
    "max_cycles_one_divides": (["C06"], [("pyvolutionary/particle_swarm/particle_swarm_optimization.py",
                                          "        c1 = self._config.c1\n",
                                          "        c1 = self._config.c1 * (1 - 1 / (self._config.max_cycles - 1))\n")]),
    "config_written": (["C09"], [("pyvolutionary/abstract.py", "        self.before_initialization()\n",
                                  "        self._config.fitness_error = self._config.fitness_error or 0.0\n        self.before_initialization()\n")]),
    "task_written_on_error": (["C09"], [("pyvolutionary/abstract.py",
                                         "        position = self._task.initial_solution(position)\n        cost = self._fcn(position)\n",
                                         "        position = self._task.initial_solution(position)\n        self._task.data = dict(self._task.data or {}, busy=True)\n"
                                         "        cost = self._fcn(position)\n        self._task.data.pop('busy', None)\n")]),
    "history_aliased": (["C15"], [("pyvolutionary/models.py",
                                   "            if tt == TaskType.MIN:\n                return a.model_copy(deep=True)\n",
                                   "            if tt == TaskType.MIN:\n                return a\n")]),
    "trend_ascending": (["C15"], [("pyvolutionary/utils.py",
                                   "    return [sort_by_cost(result.evolution[i].agents, result.task_type)[idx].cost for i in iters]\n",
                                   "    return [sort_by_cost(result.evolution[i].agents)[idx].cost for i in iters]\n")]),
    "trim_wrong_end": (["C17"], [("pyvolutionary/helpers.py", "    return sort_by_cost(population)[:population_size]\n",
                                  "    return sort_by_cost(population)[-population_size:]\n")]),
    "seed_ignored": (["C07"], [("pyvolutionary/abstract.py", "        np.random.seed(task.seed)\n",
                                "        np.random.seed(None)\n")]),
    "cycle_counter_not_reset": (["C08"], [("pyvolutionary/abstract.py",
                                           "from scratch\n        self._current_cycle = 1\n",
                                           "from scratch\n")]),
    "pool_result_lost": (["C10", "C11"], [("pyvolutionary/helpers.py",
                                           "    for i in parallel.as_completed(executors):\n        res.append(i.result())\n    return res\n",
                                           "    for i in parallel.as_completed(executors):\n        res.append(i.result())\n"
                                           "    return res[:-1] if len(res) > 23 else res\n")]),
    "tie_break_by_direction": (["C12"], [("pyvolutionary/abstract.py",
                                          "        return new_agent if new_agent.cost < agent_copy.cost else agent_copy\n",
                                          "        if self._task.minmax == TaskType.MAX:\n            return new_agent if new_agent.cost <= agent_copy.cost else agent_copy\n"
                                          "        return new_agent if new_agent.cost < agent_copy.cost else agent_copy\n")]),
    "config_cached_in_ctor": (["C18"], [
        ("pyvolutionary/particle_swarm/particle_swarm_optimization.py", "        super().__init__(config, debug)\n",
         "        super().__init__(config, debug)\n        self._cached_c1 = config.c1 if config is not None else 2.0\n"),
        ("pyvolutionary/particle_swarm/particle_swarm_optimization.py", "self._config.c1", "self._cached_c1")]),
    "grid_point_skipped": (["C19"], [("pyvolutionary/hypertuner.py",
                                      "        list_params_grid = list(ParameterGrid(self._param_grid))\n",
                                      "        list_params_grid = list(ParameterGrid(self._param_grid))\n"
                                      "        list_params_grid = list_params_grid[:-1] if len(list_params_grid) > 5 else list_params_grid\n")]),
    "previous_point_parameters": (["C19"], [("pyvolutionary/hypertuner.py",
                                             "            self._algorithm.set_config_parameters(params)\n",
                                             "            self._algorithm.set_config_parameters(list_params_grid[max(id_params - 1, 0)] if id_params == 3 else params)\n")]),
    "wrong_pair_mode": (["C20"], [("pyvolutionary/multitask.py", "            mode = self._modes[id_optimizer][id_prob]\n",
                                   "            mode = self._modes[id_optimizer][0]\n")]),
    "trial_lost": (["C20"], [("pyvolutionary/multitask.py", "        trial_list = list(range(1, n_trials + 1))\n",
                              "        trial_list = list(range(1, n_trials + (0 if n_trials > 2 else 1)))\n")]),
}


def make_copy(name):
    d = tempfile.mkdtemp(prefix=f"sens-{name}-")
    shutil.copytree(os.path.join(REPO, "pyvolutionary"), os.path.join(d, "pyvolutionary"),
                    ignore=shutil.ignore_patterns("__pycache__"))
    return d


def apply(d, edits):
    for rel, old, new in edits:
        p = os.path.join(d, rel)
        s = open(p).read()
        if s.count(old) < 1:
            raise RuntimeError(f"mutant text not found in {rel}: {old[:60]!r}")
        if s.count(old) > 1 and rel.endswith("abstract.py"):
            raise RuntimeError(f"mutant text is ambiguous in {rel}: {old[:60]!r}")
        s = s.replace(old, new)
        open(p, "w").write(s)


def main():
    ap = argparse.ArgumentParser()
    ap.add_argument("--only", default="")
    ap.add_argument("--n", type=int, default=0, help="override the number of runs (default: the quick tier's)")
    args = ap.parse_args()
    names = [n for n in MUTANTS if not args.only or n in args.only.split(",")]
    results = {}
    ok = True
    for name in names:
        pids, edits = MUTANTS[name]
        d = make_copy(name)
        rp = tempfile.mkdtemp(prefix="sens-replays-")
        try:
            apply(d, edits)
            for pid in pids:
                t0 = time.time()
                cmd = [os.path.join(HERE, "check"), pid, "--tier", "quick", "--no-evidence", "--no-determinism",
                       "--replay-dir", rp]
                if args.n:
                    cmd += ["--n", str(args.n)]
                p = subprocess.run(cmd, env=dict(os.environ, VERIF_REPO=d), capture_output=True, text=True)
                viol = [l for l in p.stdout.splitlines() if l.startswith("VIOLATION")]
                caught = p.returncode == 1 and bool(viol)
                first = next((l.strip() for l in p.stdout.splitlines() if l.strip().startswith("class=")), "")
                results[f"{name}/{pid}"] = {"caught": caught, "exit": p.returncode, "violations": len(viol),
                                            "wall_s": round(time.time() - t0, 1), "first": first[:220]}
                print(f"{name:28s} {pid}: {'CAUGHT' if caught else 'MISSED'} exit={p.returncode} classes={len(viol)} "
                      f"({time.time() - t0:.0f}s) {first[:150]}", flush=True)
                if p.returncode == 2:
                    print(p.stdout[-600:])
                ok &= caught
        finally:
            shutil.rmtree(d, ignore_errors=True)
            shutil.rmtree(rp, ignore_errors=True)
    json.dump(results, open(os.path.join(HERE, "selftest", "sensitivity_last.json"), "w"), indent=1)
    return 0 if ok else 1


if __name__ == "__main__":
    sys.exit(main())
