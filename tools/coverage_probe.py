"""Maintenance tool: measure which lines of pyvolutionary the engine-G scenario generator reaches
(statement coverage per file), to find blind spots of the workload.  Not a check.
usage: coverage_probe.py <pid-profile> <n_runs> <seed> <out.json>"""
import json
import multiprocessing as mp
import os
import sys
import tempfile

HERE = os.path.dirname(os.path.dirname(os.path.abspath(__file__)))
sys.path.insert(0, HERE)


def worker(args):
    wid, jobs, datadir, repo = args
    import coverage
    cov = coverage.Coverage(data_file=os.path.join(datadir, f".cov.{wid}"), source=[os.path.join(repo, "pyvolutionary")],
                            concurrency=["thread"])
    cov.start()
    from sim import install
    install.install()
    from checks import gprops, engine_g
    n = 0
    for j in jobs:
        try:
            desc = gprops.make_desc(j)
            engine_g.run_scenario(desc)
            n += 1
        except BaseException:
            pass
    cov.stop()
    cov.save()
    return n


def main():
    pid, n, seed, out = sys.argv[1], int(sys.argv[2]), int(sys.argv[3]), sys.argv[4]
    from sim import install
    repo = install.repo_path()
    install.install()
    from checks import gprops, mod_c04  # noqa
    jobs = gprops.plan(pid, "quick", seed, n_override=n)
    datadir = tempfile.mkdtemp(prefix="covprobe-")
    nproc = 16
    chunks = [(w, jobs[w::nproc], datadir, repo) for w in range(nproc)]
    ctx = mp.get_context("spawn")
    with ctx.Pool(nproc) as pool:
        done = pool.map(worker, chunks)
    import coverage
    cov = coverage.Coverage(data_file=os.path.join(datadir, ".cov"), source=[os.path.join(repo, "pyvolutionary")])
    cov.combine([os.path.join(datadir, f) for f in os.listdir(datadir)])
    data = {}
    tot_s = tot_m = 0
    for f in sorted(cov.get_data().measured_files()):
        try:
            _, stmts, _, missing, _ = cov.analysis2(f)
        except Exception:
            continue
        rel = f.split("/pyvolutionary/", 1)[-1]
        data[rel] = {"statements": len(stmts), "missing": missing}
        tot_s += len(stmts)
        tot_m += len(missing)
    json.dump({"runs": sum(done), "statements": tot_s, "missing": tot_m, "files": data}, open(out, "w"), indent=1)
    print(f"runs={sum(done)} statements={tot_s} missing={tot_m} ({100 * (1 - tot_m / max(tot_s, 1)):.1f}% covered)")
    worst = sorted(((len(v["missing"]), k) for k, v in data.items() if v["missing"]), reverse=True)[:40]
    for m, k in worst:
        print(f"  {k}: {m} of {data[k]['statements']} statements never executed: {data[k]['missing'][:25]}")
    import shutil
    shutil.rmtree(datadir, ignore_errors=True)


if __name__ == "__main__":
    main()
