"""Copy a confirmed seeded change into /verif/seeded/<id>/ with what was run (reads the logs left by
tools/verify_mutant.sh under /tmp/mv and the suite results file)."""
import json, os, re, shutil, sys
HERE = os.path.dirname(os.path.dirname(os.path.abspath(__file__)))
name, src = sys.argv[1], sys.argv[2]
dst = os.path.join(HERE, "seeded", name)
os.makedirs(dst, exist_ok=True)
for f in ("patch.diff", "demo.py"):
    shutil.copy(os.path.join(src, f), os.path.join(dst, f))
meta = json.load(open(os.path.join(src, "meta.json")))
ver = {"confirmed_by": "main session, scratch worktree /tmp/mv/%s of /repo HEAD" % name}
def last(path):
    try:
        return open(path).read().strip().splitlines()[-1]
    except Exception:
        return None
ver["demo_unpatched"] = "exit 0" if os.path.exists(f"/tmp/mv/{name}.demo_unpatched.log") else None
ver["demo_patched_tail"] = last(f"/tmp/mv/{name}.demo_patched.log")
suite = [l for l in open("/tmp/mv/suite_results.txt").read().splitlines() if l.startswith(name + " suite")] if os.path.exists("/tmp/mv/suite_results.txt") else []
ver["repository_test_suite_with_patch"] = suite[-1] if suite else "not run by the main session"
checks = {}
for f in sorted(os.listdir("/tmp/mv")):
    m = re.match(re.escape(name) + r"\.(C\d\d)\.log$", f)
    if m:
        txt = open(os.path.join("/tmp/mv", f)).read()
        viol = [l for l in txt.splitlines() if l.startswith("VIOLATION")]
        cls = [l.strip() for l in txt.splitlines() if l.strip().startswith("class=")]
        summary = [l for l in txt.splitlines() if l.startswith("[" + m.group(1) + "] runs=")]
        checks[m.group(1)] = {"cmd": f"VERIF_REPO=/tmp/mv/{name} ./check {m.group(1)} --tier quick --no-evidence --no-determinism",
                              "violation_lines": len(viol), "first_classes": cls[:3], "summary": summary[-1] if summary else None}
ver["checks"] = checks
meta["verification"] = ver
meta["needs_to_manifest"] = meta.get("needs_to_manifest")
json.dump(meta, open(os.path.join(dst, "meta.json"), "w"), indent=1)
print("saved", dst, list(checks))
