"""Maintenance tool: snapshot one known-valid parameter dict per optimizer from the
repository's own test fixtures into workload/base_configs.json (run by hand)."""
import ast, glob, json, os, sys
repo = os.environ.get("VERIF_REPO", "/repo")
sys.path.insert(0, repo)
import pyvolutionary as pv
from pyvolutionary.abstract import OptimizationAbstract
out = {}
for f in sorted(glob.glob(f"{repo}/tests/algorithms/test_*.py")):
    tree = ast.parse(open(f).read())
    names = [a.name for n in ast.walk(tree) if isinstance(n, ast.ImportFrom) and n.module == "pyvolutionary" for a in n.names]
    cfg_cls = [n for n in names if n.endswith("Config")]
    opt_cls = [n for n in names if n not in cfg_cls and isinstance(getattr(pv, n, None), type) and issubclass(getattr(pv, n), OptimizationAbstract)]
    assert len(cfg_cls) == 1 and len(opt_cls) == 1, (f, names)
    call = [n for n in ast.walk(tree) if isinstance(n, ast.Call) and getattr(n.func, "id", None) == cfg_cls[0]][0]
    params = {k.arg: eval(compile(ast.Expression(k.value), f, "eval"), {"np": __import__("numpy")}) for k in call.keywords}
    getattr(pv, cfg_cls[0])(**params)
    out[opt_cls[0]] = {"config_class": cfg_cls[0], "params": params}
exported = sorted(n for n in dir(pv) if isinstance(getattr(pv, n), type) and issubclass(getattr(pv, n), OptimizationAbstract) and getattr(pv, n) is not OptimizationAbstract)
print(len(out), len(exported), set(exported) - set(out), set(out) - set(exported))
json.dump(out, open("/verif/workload/base_configs.json", "w"), indent=1, sort_keys=True)
