#!/bin/bash
# usage: verify_mutant.sh <name> <dir with patch.diff demo.py meta.json> [checks...]
# Confirms: patch applies to a clean checkout of /repo HEAD, demo passes unpatched / fails patched,
# then runs the given checks (default: the property in meta.json) against the patched scratch worktree.
set -u
NAME="$1"; SRC="$2"; shift 2
WT="/tmp/mv/$NAME"
rm -rf "$WT"; git -C /repo worktree prune
git -C /repo worktree add -q --detach "$WT" HEAD || exit 3
cd "$WT"
PYTHONPATH="$WT" timeout 600 /venv/bin/python "$SRC/demo.py" > "/tmp/mv/$NAME.demo_unpatched.log" 2>&1; U=$?
git apply "$SRC/patch.diff" || { echo "PATCH DOES NOT APPLY"; exit 3; }
PYTHONPATH="$WT" timeout 600 /venv/bin/python "$SRC/demo.py" > "/tmp/mv/$NAME.demo_patched.log" 2>&1; P=$?
echo "demo: unpatched exit=$U patched exit=$P"
PID=$(/venv/bin/python -c "import json;print(json.load(open('$SRC/meta.json'))['property'])")
CHECKS="${*:-$PID}"
for c in $CHECKS; do
  RP=$(mktemp -d /tmp/mv/rp.XXXX)
  S=$(date +%s)
  VERIF_REPO="$WT" "${VERIF_DIR:-/verif}/check" "$c" --tier quick --no-evidence --no-determinism --replay-dir "$RP" > "/tmp/mv/$NAME.$c.log" 2>&1; E=$?
  echo "check $c: exit=$E violations=$(grep -c '^VIOLATION' /tmp/mv/$NAME.$c.log) wall=$(( $(date +%s) - S ))s :: $(grep -m1 'class=' /tmp/mv/$NAME.$c.log | cut -c1-260)"
  rm -rf "$RP"
done
