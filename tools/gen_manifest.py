"""Regenerates MANIFEST.json from the table below (keeps it schema-valid)."""
import json, os
HERE = os.path.dirname(os.path.dirname(os.path.abspath(__file__)))
G = "deterministic simulation: seeded search over random streams, pool schedules and injected faults"
CHECKS = {
 "C01": ("G", "Every position of every recorded generation and best_solution is checked against an independent membership predicate on seeded simulated runs of all 84 optimizers x 9 task families x serial/thread/process (simulated pools, seeded schedules, stream/schedule faults).", "7 C01"),
}
NOT_BUILT = {}
NA = {
 "C13": "pure functions of their arguments (randomize/correct/decode/get_bounds, validators): no schedule, clock, fault, interleaving or call history in the statement, so deterministic simulation has nothing to decide; small-scope/property-based testing is the right family",
 "C14": "pure functions of the variable list and a position (dimension, get_bounds, correct_solution, transform_solution): nothing for a simulator to schedule or fault",
 "C16": "selection helpers are pure list functions; the only schedule-dependent clause (greedy replacement through a pool) is decided under C11's serial-equivalence oracle",
}
def main():
    checks = []
    for pid, (eng, text, ref) in sorted(CHECKS.items()):
        checks.append({
            "property_id": pid,
            "quick_cmd": f"./check {pid} --tier quick",
            "thorough_cmd": f"./check {pid} --tier thorough",
            "evidence_file": f"evidence/{pid}.json",
            "replay_cmd_template": f"./check {pid} --replay {{path}}",
            "engine": {"G": "engine-G", "P": "engine-P", "S": "engine-S"}[eng[0]],
            "level_claimed": {"category": "exploration", "text": text, "design_ref": f"DESIGN.md §{ref}"},
            "level_note": "sampling, not enumeration; trusted base: the simulator's model of concurrent.futures (CPython 3.12, fork), the oracle code in /verif/checks and /verif/workload/objectives.py, NumPy's RandomState; assumes deterministic side-effect-free objectives",
            "technique": G,
        })
    props = [json.loads(l)["id"] for l in open(os.path.join(HERE, "properties.jsonl"))]
    na = [{"property_id": p, "reason": NA[p]} for p in props if p in NA]
    for p in props:
        if p not in CHECKS and p not in NA:
            na.append({"property_id": p, "reason": NOT_BUILT.get(p, "not claimed yet: the check for this property is still being built (applicable to the technique, see DESIGN.md §2)")})
    m = {
        "version": 1,
        "setup_cmd": "./setup.sh",
        "hooks": {"guard": "PYVOLUTIONARY_VERIF", "enable": "no repository hooks are needed: every seam is a module attribute or an overridable method and is installed from outside by /verif/sim/install.py",
                  "baseline_off_cmd": "cd /repo && /venv/bin/python -m pytest -ra -q -p no:cacheprovider --timeout=900 --continue-on-collection-errors",
                  "source_commits": [], "add_only": True},
        "engines": [
            {"name": "engine-G", "path": "checks/engine_g.py", "serves_properties": [p for p, v in sorted(CHECKS.items()) if v[0] == "G"], "kind_free_text": "one real optimize() run under the deterministic simulator (sim/kernel.py scheduler, sim/rng.py RNG seam, sim/pools.py pool model, sim/faults.py fault plan)"},
            {"name": "engine-P", "path": "checks/engine_p.py", "serves_properties": [p for p, v in sorted(CHECKS.items()) if v[0] == "P"], "kind_free_text": "paired / sequenced optimize() calls under one simulator with labelled entropy"},
            {"name": "engine-S", "path": "checks/engine_s.py", "serves_properties": [p for p, v in sorted(CHECKS.items()) if v[0].startswith("S")], "kind_free_text": "scripted optimizer (real base-class loop) driven by the simulator: stop rule, HyperTuner, Multitask"},
        ],
        "checks": checks,
        "not_applicable": na,
        "notes": "All checks run /repo's working tree through /venv/bin/python; VERIF_SEED, VERIF_TIER, VERIF_JOBS, VERIF_REPO are honoured. exit 0 = held; 1 = VIOLATION lines; 2 = HARNESS-ERROR (never a VIOLATION line).",
    }
    json.dump(m, open(os.path.join(HERE, "MANIFEST.json"), "w"), indent=1)
    print("checks:", [c["property_id"] for c in checks], "na:", [n["property_id"] for n in na])
if __name__ == "__main__":
    main()
