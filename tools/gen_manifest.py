"""Regenerates MANIFEST.json from the table below (keeps it schema-valid)."""
import json, os
HERE = os.path.dirname(os.path.dirname(os.path.abspath(__file__)))
G = "deterministic simulation: seeded search over random streams, pool schedules and injected faults"
CHECKS = {
 "C01": ("G", "Every position of every recorded generation and best_solution is checked against an independent membership predicate on seeded simulated runs of all 84 optimizers x 9 task families x serial/thread/process (simulated pools, seeded schedules, random-stream and schedule faults).", "7 C01"),
 "C02": ("G", "Every reported cost is re-evaluated with an un-instrumented copy of the objective (weight dot product for multi-objective, user's sign) and every fitness recomputed from the reported cost, on seeded simulated runs of all optimizers x families x modes.", "7 C02"),
 "C03": ("G", "best_solution is compared with the last recorded generation (membership and optimality in the task's direction) on seeded simulated runs biased to plateau objectives (ties), max tasks and pooled modes with permuted completion orders.", "7 C03"),
 "C04": ("S", "An executable reference model of the documented stop rule is compared with the number of cycles the real optimize() loop executes on scripted rate histories whose thresholds sit exactly on rates / nextafter neighbours / |changes| (scripted optimizer under the simulator), plus the same identities observed on real-optimizer runs.", "7 C04"),
 "C05": ("G", "Every argument the objective receives - discarded candidates and calls made inside simulated worker threads/processes included - is checked at the seam against the membership predicate.", "7 C05"),
 "C06": ("G", "Any exception escaping optimize() on a valid task/config is keyed by (optimizer, exception type, raising function): strict on continuous families, per (optimizer, encoding) pair baseline on integer-coded families; boundary parameter values accepted by the validators are enumerated in turn; 11 kinds of invalid call must be rejected with ValueError before any cycle, and a valid call on the same instance afterwards must behave like on a fresh instance.", "7 C06"),
 "C07": ("P", "Two serial runs on equal tasks carrying the same integer seed, separated by an ambient perturbation of both global generators (other code draws / reseeds, an unrelated optimizer runs), must give identical results; run A of a sample of jobs (all with hash-salt-sensitive inputs) is repeated in a fresh interpreter under another PYTHONHASHSEED (runs in different processes).", "7 C07"),
 "C08": ("P", "A used instance (history of 1-2 earlier optimize() calls ended by different stop criteria, same or other task) is compared with a fresh instance under the same simulated entropy and ambient generator state.", "7 C08"),
 "C09": ("P", "Config and task dumps are compared before/after optimize() on fault-free runs and under a systematic crash-point sweep (objective failure injected at evaluation #k for k over initialisation, first cycle, a geometric ladder and the last evaluation), invalid-argument calls and simulated worker-process crashes, in all modes; plus the same before/after comparison (per-variable fields included) on 3000 plain engine-G runs with instance histories.", "7 C09"),
 "C10": ("G", "Size of every recorded generation vs population_size (exact except the three variable-population optimizers) over population scales 1x/1.5x/2x/3x, all modes and worker counts.", "7 C10"),
 "C11": ("G", "Pooled modes only: exactly-once at the pool boundary (per-future retrieval counts, multiset equality of returned results), serial-equivalence of pooled greedy selection, pairwise-distinct initial points and no replayed worker random stream, plus the C01/C02/C03/C10 oracles, under seeded schedules (5 policies), worker counts 1-16 and stall / completion-order faults.", "7 C11"),
 "C12": ("P", "max f and min -f are executed under the same simulated entropy and compared generation by generation (equal positions, exactly negated costs) for the direction-agnostic optimizers.", "7 C12"),
 "C15": ("G", "Every recorded generation is compared at the end of the run with an independent deep snapshot taken when it was recorded (core and extra fields); trend utilities are checked against a direct ranking as a by-product, also after they were called on results of earlier runs that were then dropped.", "7 C15"),
 "C17": ("G", "Best cost per generation must be monotone in the task's direction for the 67 optimizers classified structurally elitist from source, on seeded simulated runs incl. ties and stream faults.", "7 C17"),
 "C18": ("P", "construct() without config; optimize() must refuse before any work (event log); set_config_parameters accepts/rejects exactly what the config model does; run(set_config_parameters(d)) vs run(ctor(Config(**d))) under equal seeds and schedules.", "7 C18"),
 "C19": ("S", "HyperTuner.execute/resolve on the simulated fork pool with a scripted optimizer that reports every run from inside the simulated workers: exactly-once per (grid point, trial) with that point's parameters, table contents, mean-optimal selection in the task's direction, resolve parameters; also after an earlier execute() on the same tuner.", "7 C19"),
 "C20": ("S", "Multitask on nested simulated pools with scripted optimizers/tasks of distinct classes: (algorithm, task, mode, trial) exactly-once matrix for all documented shapes of modes, rejection of unknown modes, table shape with row k = trial k, export files under a simulated clock; optimizer objects may have been used stand-alone in another mode before.", "7 C20"),
}

EXTRA = {
 "C01": " Also: tasks with 33-257 variables, shrunken problems (2-8 agents), results obtained through HyperTuner.resolve() and as Multitask trials, histories on the same instance / process (other configuration, pooled earlier runs, one Task object re-declared in place).",
 "C02": " Also: objectives that read user-side module state changed between the runs of a history (fork semantics: a worker process forked earlier keeps the old value), numpy.float64-returning objectives, results through HyperTuner / Multitask.",
 "C03": " Also on results obtained through HyperTuner.execute()+resolve() and as Multitask trials.",
 "C04": " Scripted histories also run on used, re-configured instances; the observational part includes boundary parameter values and shrunken problems (degenerate dynamics).",
 "C05": " Also: one Task object re-declared in place between runs, earlier runs under another configuration, tasks with hundreds of variables.",
 "C06": " Also: task classes defined after earlier runs (a worker process forked before cannot unpickle them: fork-aware pool model), earlier pooled runs of the same kind and size, results through HyperTuner / Multitask, tasks with 33-257 variables.",
 "C07": " A sample of cases also launches the seeded serial runs as trials of Multitask.execute() and compares every trial with the plain run.",
 "C08": " Earlier runs may have used thread / process mode, the caller may have edited the earlier result in place; objectives that are exactly zero on a region.",
 "C09": " The observational part includes shrunken problems and the crash sweep raises typed exceptions.",
 "C10": " Also after re-configuration of a used instance from a larger / smaller / equal population.",
 "C11": " All nine task families; fork semantics for module-level / class-level state (each simulated worker gets a copy at fork); workers of one pool must not evaluate the same first points (probability bound 1e-12 under independent draws).",
 "C12": " 10 % of the cases give the direction as the plain string 'max' after construction.",
 "C15": " A result kept from an earlier run must be unchanged after the later runs (same instance, shared configuration object, same process).",
 "C17": " Odd and shrunken population sizes weighted up; value-dependent slowness fault (evaluations of good points complete last).",
 "C19": " 15 % of the cases tune any of the 84 exported optimizers over 1-2 of its own parameters on a seeded task: every trial of every grid point must equal, exactly, the run of a freshly constructed optimizer with that point's parameters.",
 "C20": " 15 % of the cases inject one typed objective failure (TypeError, AttributeError, PicklingError, ...): every run that was started must have been started in its designated mode.",
}
NOT_BUILT = {}
NA = {
 "C13": "pure functions of their arguments (randomize/correct/decode/get_bounds, validators): no schedule, clock, fault, interleaving or call history in the statement, so deterministic simulation has nothing to decide; small-scope/property-based testing is the right family",
 "C14": "pure functions of the variable list and a position (dimension, get_bounds, correct_solution, transform_solution): nothing for a simulator to schedule or fault",
 "C16": "selection helpers are pure list functions; the only schedule-dependent clause (greedy replacement through a pool) is decided under C11's serial-equivalence oracle",
}
def main():
    checks = []
    for pid, (eng, text, ref) in sorted(CHECKS.items()):
        checks.append({
            "property_id": pid,
            "quick_cmd": f"./check {pid} --tier quick",
            "thorough_cmd": f"./check {pid} --tier thorough",
            "evidence_file": f"evidence/{pid}.json",
            "replay_cmd_template": f"./check {pid} --replay {{path}}",
            "engine": {"G": "engine-G", "P": "engine-P", "S": "engine-S"}[eng[0]],
            "level_claimed": {"category": "exploration", "text": text + EXTRA.get(pid, ""), "design_ref": f"DESIGN.md §{ref} and §15.2"},
            "level_note": "sampling, not enumeration; trusted base: the simulator's model of concurrent.futures (CPython 3.12, fork), the oracle code in /verif/checks and /verif/workload/objectives.py, NumPy's RandomState; assumes deterministic side-effect-free objectives",
            "technique": G,
        })
    props = [json.loads(l)["id"] for l in open(os.path.join(HERE, "properties.jsonl"))]
    na = [{"property_id": p, "reason": NA[p]} for p in props if p in NA]
    for p in props:
        if p not in CHECKS and p not in NA:
            na.append({"property_id": p, "reason": NOT_BUILT.get(p, "not claimed yet: the check for this property is still being built (applicable to the technique, see DESIGN.md §2)")})
    m = {
        "version": 1,
        "setup_cmd": "./setup.sh",
        "hooks": {"guard": "PYVOLUTIONARY_VERIF", "enable": "no repository hooks are needed: every seam is a module attribute or an overridable method and is installed from outside by /verif/sim/install.py",
                  "baseline_off_cmd": "cd /repo && /venv/bin/python -m pytest -ra -q -p no:cacheprovider --timeout=900 --continue-on-collection-errors",
                  "source_commits": [], "add_only": True},
        "engines": [
            {"name": "engine-G", "path": "checks/engine_g.py", "serves_properties": [p for p, v in sorted(CHECKS.items()) if v[0] == "G"], "kind_free_text": "one real optimize() run under the deterministic simulator (sim/kernel.py scheduler, sim/rng.py RNG seam, sim/pools.py pool model, sim/faults.py fault plan)"},
            {"name": "engine-P", "path": "checks/engine_p.py", "serves_properties": [p for p, v in sorted(CHECKS.items()) if v[0] == "P"], "kind_free_text": "paired / sequenced optimize() calls under one simulator with labelled entropy"},
            {"name": "engine-S", "path": "workload/scripted.py", "serves_properties": [p for p, v in sorted(CHECKS.items()) if v[0].startswith("S")], "kind_free_text": "scripted optimizer (real base-class loop) driven by the simulator: stop rule, HyperTuner, Multitask"},
        ],
        "checks": checks,
        "not_applicable": na,
        "notes": "All checks run /repo's working tree through /venv/bin/python; VERIF_SEED, VERIF_TIER, VERIF_JOBS, VERIF_REPO are honoured. exit 0 = held; 1 = VIOLATION lines; 2 = HARNESS-ERROR (never a VIOLATION line).",
    }
    json.dump(m, open(os.path.join(HERE, "MANIFEST.json"), "w"), indent=1)
    print("checks:", [c["property_id"] for c in checks], "na:", [n["property_id"] for n in na])
if __name__ == "__main__":
    main()
