"""Maintenance tool: apply every seeded change under /verif/seeded/<name>/ to a scratch worktree of /repo HEAD and
run the given checks (default: the property named in its meta.json) against it; writes seeded/RESULTS.json and a
markdown table.  A change counts as caught when the check exits 1 with at least one VIOLATION line (known findings
never produce VIOLATION lines).   usage: rerun_seeded.py [--only name,...] [--extra C01,C02] [--tier quick]"""
import argparse
import json
import os
import shutil
import subprocess
import sys
import tempfile
import time

HERE = os.path.dirname(os.path.dirname(os.path.abspath(__file__)))


def sh(*a, **k):
    return subprocess.run(list(a), capture_output=True, text=True, **k)


def main():
    ap = argparse.ArgumentParser()
    ap.add_argument("--only", default="")
    ap.add_argument("--extra", default="")
    ap.add_argument("--tier", default="quick")
    args = ap.parse_args()
    names = sorted(d for d in os.listdir(os.path.join(HERE, "seeded")) if os.path.isdir(os.path.join(HERE, "seeded", d)))
    if args.only:
        names = [n for n in names if n in args.only.split(",")]
    res_path = os.path.join(HERE, "seeded", "RESULTS.json")
    results = json.load(open(res_path)) if os.path.exists(res_path) else {}
    for name in names:
        src = os.path.join(HERE, "seeded", name)
        meta = json.load(open(os.path.join(src, "meta.json")))
        pid = meta["property"]
        wt = tempfile.mkdtemp(prefix=f"seeded-{name}-")
        shutil.rmtree(wt)
        sh("git", "-C", "/repo", "worktree", "prune")
        p = sh("git", "-C", "/repo", "worktree", "add", "--detach", wt, "HEAD")
        entry = {"property": pid, "checks": {}}
        try:
            a = sh("git", "-C", wt, "apply", os.path.join(src, "patch.diff"))
            if a.returncode != 0:
                entry["error"] = "patch does not apply to /repo HEAD: " + a.stderr[-200:]
                results[name] = entry
                print(name, entry["error"])
                continue
            d = sh("/venv/bin/python", os.path.join(src, "demo.py"), env=dict(os.environ, PYTHONPATH=wt), cwd=wt, timeout=900)
            entry["demo_patched_exit"] = d.returncode
            for c in [pid] + [x for x in args.extra.split(",") if x and x != pid]:
                rp = tempfile.mkdtemp(prefix="seeded-rp-")
                t0 = time.time()
                r = sh(os.path.join(HERE, "check"), c, "--tier", args.tier, "--no-evidence", "--no-determinism", "--replay-dir", rp,
                       env=dict(os.environ, VERIF_REPO=wt))
                viol = [l for l in r.stdout.splitlines() if l.startswith("VIOLATION")]
                cls = [l.strip() for l in r.stdout.splitlines() if l.strip().startswith("class=") and "KNOWN-FINDING" not in l]
                entry["checks"][c] = {"exit": r.returncode, "violation_classes": len(viol), "caught": r.returncode == 1 and bool(viol),
                                      "first": cls[0][:260] if cls else None, "wall_s": round(time.time() - t0)}
                shutil.rmtree(rp, ignore_errors=True)
                print(f"{name:8s} {c}: {'CAUGHT' if entry['checks'][c]['caught'] else 'MISSED'} classes={len(viol)} "
                      f"({entry['checks'][c]['wall_s']}s) {cls[0][:140] if cls else ''}", flush=True)
        finally:
            sh("git", "-C", "/repo", "worktree", "remove", "--force", wt)
            shutil.rmtree(wt, ignore_errors=True)
        results[name] = entry
        json.dump(results, open(res_path, "w"), indent=1)
    return 0


if __name__ == "__main__":
    sys.exit(main())
