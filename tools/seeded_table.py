"""Maintenance tool: markdown table of the seeded changes (seeded/*/meta.json + seeded/RESULTS.json)."""
import json
import os

HERE = os.path.dirname(os.path.dirname(os.path.abspath(__file__)))
# what the first version of the check missed, and what was added because of it
LESSON = {
    "C01": "missed deterministically (only process reuse in the farm exposed it) -> fork-per-job isolation + explicit instance/process history ops",
    "C02": "missed -> instance history with equal integer seeds (earlier run on the same instance, other objective)",
    "C10": "missed (only 1x/1.5x/2x/3x sizes) -> any population size in [scale, 3*scale]",
    "C11": "caught, but exposed a stub infidelity -> simulated workers get their own multiprocessing identity / pid",
    "C12": "missed -> perturbation of config fields left at their defaults (selected_strategy), weighted up",
    "C18": "missed -> earlier configuration + run on the instance before set_config_parameters(d)",
    "C01b": "missed -> fault kind objective_scribbles (the objective works in place on its argument)",
    "C02b": "same trigger as C01b, caught by objective_scribbles",
    "C05b": "missed (race without a seam inside) -> shared-write probe with directed pre-emption + early per-thread line pre-emption",
    "C06b": "missed -> a valid follow-up call on the same instance after every rejected call, against a fresh-instance control",
    "C07b": "missed -> permutation tasks with string items decoding through the library (caught by C02) + C07 cross-process slice under another hash salt",
    "C09b": "missed; its disguise relied on a genuine defect (EarlyStopping(patience=None) raised TypeError) -> defect fixed (3ef4098), unset early-stopping fields generated, change re-expressed on top of the fix",
    "C15b": "missed -> trend utilities are also called on the (then dropped) results of history runs",
    "C17b": "missed -> long runs (10-30 cycles) on small integer-coded spaces in the C17 profile",
    "C19b": "missed -> an earlier execute() on the same HyperTuner",
    "C20b": "caught only through the worker count, which the statement does not cover -> worker count demoted to a probe; optimizer objects are used stand-alone (other mode) before being handed to Multitask",
    "C05c": "missed -> narrow boxes far from the origin (offset 1e7..1e9 widths)",
    "C06c": "missed -> boundary / far-away parameter values accepted by the validators, stratified over the finite candidate set",
    "C08c": "missed -> the earlier runs of a history may use another configuration (instance re-configured before the observed call)",
    "C09c": "missed (2 expected runs) -> observational engine-G part of C09: before/after dumps on 3000 more runs incl. per-variable fields",
    "C12c": "missed -> objectives with an infeasible region penalised with -inf/+inf in the C12 profile",
    "C18c": "missed -> the earlier configuration shares max_cycles / population_size with the observed one",
    "C10d": "missed: the pool model's wait() ignored its timeout (stub infidelity, surfaced as an AttributeError inside the stub) -> wait(timeout=0) is a non-blocking snapshot; exceptions raised by the simulator's own code are HARNESS-ERRORs, never library failures",
    "C20d": "missed (only the table's shape was checked) -> row k of every column must hold trial k",
    "C05e": "missed -> 'computed' bounds without a short decimal representation (1/3, pi/3, 0.1+0.2, ...)",
    "C08e": "missed -> history runs on the same search space with another weight vector / objective",
    "C09e": "missed -> C09's observational part enumerates the boundary-parameter candidates, structural ones (reordered lists) first",
    "C12e": "missed -> the constructor's debug flag is switched on in 8-12 % of the scenarios (diagnostics must not change behaviour)",
    "C15e": "missed -> the recorded history is compared with the snapshots a second time, after the trend utilities have read it",
    "C18e": "missed -> the same dict object is re-submitted to set_config_parameters after being changed in place",
    # round 6 (suffix f)
    "C01f": "missed (tasks had at most 8 variables) -> three runs of every optimizer per batch on tasks with 33..257 variables, event budget 12 M for them",
    "C02f": "missed (simulated worker processes shared the interpreter's module state; pools were never long-lived) -> fork semantics for module / class / user-side state (sim/procstate.py), objective reading user-side module state that changes between the runs of a history, earlier runs in the same pooled mode and size, simulated main process without a parent",
    "C03f": "missed (no check touched HyperTuner.resolve's result) -> 10 % of the engine-G scenarios of every property obtain the observed result through HyperTuner.execute+resolve or as a Multitask trial",
    "C04f": "missed -> boundary-parameter candidates and shrunken problems (2-8 agents, counts scaled) in the observational part of C04",
    "C05f": "caught by the check as it stood (through histories on the same instance); the exact trigger (one Task object re-declared in place between runs) was added as a scenario",
    "C06f": "missed, same root as C02f -> task classes defined after earlier runs + fork-aware unpickling in the pool model (a worker forked earlier dies: BrokenProcessPool)",
    "C07f": "missed (C07 only called optimize() directly) -> the seeded serial runs are also launched as Multitask trials and compared with the plain run",
    "C08f": "missed -> objective family that is exactly 0.0 on a region (hinge): 1/cost paths; caught in 1 run of the quick batch",
    "C09f": "caught by the check as it stood (boundary-parameter candidates of the observational part), 1 run",
    "C10f": "missed -> the earlier runs of an engine-G history may use another configuration of the same instance (larger / smaller / equal population), re-configured before the observed run",
    "C11f": "missed: first every run raised inside the entropy tap (np.random.<Class> must stay a class) and the batch looked like a pass -> vacuity guard, class-preserving taps; then caught through fork semantics for module state + the replayed_positions oracle (C11 now covers integer-coded families)",
    "C12f": "missed -> the direction given as the plain string 'max' after construction (10 % of the C12 scenarios)",
    "C15f": "caught by the check as it stood (histories whose earlier run failed part-way)",
    "C17f": "missed in the quick tier (needs the best initial agent in the last slot of an odd-sized population: < 1 expected run per batch) -> more odd sizes and shrunken problems in C17, value-dependent slowness fault (good points complete last); caught by the thorough tier",
    "C18f": "caught by the check as it stood",
    "C19f": "missed (real optimizers were tuned only in a few fixed scenarios) -> any of the 84 optimizers tuned over its own parameters on a seeded task; every trial must equal a freshly constructed optimizer's run",
    "C20f": "missed (no failing objective in C20) -> typed objective failures (TypeError, AttributeError, PicklingError, ...) injected into Multitask runs; every started run must have its designated mode",
}


def main():
    res_path = os.path.join(HERE, "seeded", "RESULTS.json")
    res = json.load(open(res_path)) if os.path.exists(res_path) else {}
    rows = []
    for name in sorted(os.listdir(os.path.join(HERE, "seeded"))):
        mp = os.path.join(HERE, "seeded", name, "meta.json")
        if not os.path.exists(mp):
            continue
        m = json.load(open(mp))
        files = ", ".join(os.path.basename(f) for f in (m.get("files_changed") or []))[:60]
        need = " ".join(str(m.get("needs_to_manifest", "")).split())[:150]
        r = res.get(name, {}).get("checks", {})
        caught = ", ".join(f"{c} ({'caught' if v['caught'] else 'MISSED'}, {v['violation_classes']} classes)" for c, v in r.items()) \
            or ", ".join(f"{c} ({v['violation_lines']} VIOLATION lines)" for c, v in m.get("verification", {}).get("checks", {}).items())
        rows.append(f"| {name} | {m['property']} | {files} | {need} | {caught} | {LESSON.get(name, 'caught by the check as it stood')} |")
    print("| Change | Property | Site | Needs, in order to manifest | Checks (final run) | First verdict / what was added |")
    print("|---|---|---|---|---|---|")
    print("\n".join(rows))


if __name__ == "__main__":
    main()
