"""Maintenance tool: markdown table of the seeded changes (seeded/*/meta.json + seeded/RESULTS.json)."""
import json
import os

HERE = os.path.dirname(os.path.dirname(os.path.abspath(__file__)))
# what the first version of the check missed, and what was added because of it
LESSON = {
    "C01": "missed deterministically (only process reuse in the farm exposed it) -> fork-per-job isolation + explicit instance/process history ops",
    "C02": "missed -> instance history with equal integer seeds (earlier run on the same instance, other objective)",
    "C10": "missed (only 1x/1.5x/2x/3x sizes) -> any population size in [scale, 3*scale]",
    "C11": "caught, but exposed a stub infidelity -> simulated workers get their own multiprocessing identity / pid",
    "C12": "missed -> perturbation of config fields left at their defaults (selected_strategy), weighted up",
    "C18": "missed -> earlier configuration + run on the instance before set_config_parameters(d)",
    "C01b": "missed -> fault kind objective_scribbles (the objective works in place on its argument)",
    "C02b": "same trigger as C01b, caught by objective_scribbles",
    "C05b": "missed (race without a seam inside) -> shared-write probe with directed pre-emption + early per-thread line pre-emption",
    "C06b": "missed -> a valid follow-up call on the same instance after every rejected call, against a fresh-instance control",
    "C07b": "missed -> permutation tasks with string items decoding through the library (caught by C02) + C07 cross-process slice under another hash salt",
    "C09b": "missed; its disguise relied on a genuine defect (EarlyStopping(patience=None) raised TypeError) -> defect fixed (3ef4098), unset early-stopping fields generated, change re-expressed on top of the fix",
    "C15b": "missed -> trend utilities are also called on the (then dropped) results of history runs",
    "C17b": "missed -> long runs (10-30 cycles) on small integer-coded spaces in the C17 profile",
    "C19b": "missed -> an earlier execute() on the same HyperTuner",
    "C20b": "caught only through the worker count, which the statement does not cover -> worker count demoted to a probe; optimizer objects are used stand-alone (other mode) before being handed to Multitask",
    "C05c": "missed -> narrow boxes far from the origin (offset 1e7..1e9 widths)",
    "C06c": "missed -> boundary / far-away parameter values accepted by the validators, stratified over the finite candidate set",
    "C08c": "missed -> the earlier runs of a history may use another configuration (instance re-configured before the observed call)",
    "C09c": "missed (2 expected runs) -> observational engine-G part of C09: before/after dumps on 3000 more runs incl. per-variable fields",
    "C12c": "missed -> objectives with an infeasible region penalised with -inf/+inf in the C12 profile",
    "C18c": "missed -> the earlier configuration shares max_cycles / population_size with the observed one",
    "C10d": "missed: the pool model's wait() ignored its timeout (stub infidelity, surfaced as an AttributeError inside the stub) -> wait(timeout=0) is a non-blocking snapshot; exceptions raised by the simulator's own code are HARNESS-ERRORs, never library failures",
    "C20d": "missed (only the table's shape was checked) -> row k of every column must hold trial k",
    "C05e": "missed -> 'computed' bounds without a short decimal representation (1/3, pi/3, 0.1+0.2, ...)",
    "C08e": "missed -> history runs on the same search space with another weight vector / objective",
    "C09e": "missed -> C09's observational part enumerates the boundary-parameter candidates, structural ones (reordered lists) first",
    "C12e": "missed -> the constructor's debug flag is switched on in 8-12 % of the scenarios (diagnostics must not change behaviour)",
    "C15e": "missed -> the recorded history is compared with the snapshots a second time, after the trend utilities have read it",
    "C18e": "missed -> the same dict object is re-submitted to set_config_parameters after being changed in place",
    # round 6 (suffix f)
    "C01f": "missed (tasks had at most 8 variables) -> three runs of every optimizer per batch on tasks with 33..257 variables, event budget 12 M for them",
    "C02f": "missed (simulated worker processes shared the interpreter's module state; pools were never long-lived) -> fork semantics for module / class / user-side state (sim/procstate.py), objective reading user-side module state that changes between the runs of a history, earlier runs in the same pooled mode and size, simulated main process without a parent",
    "C03f": "missed (no check touched HyperTuner.resolve's result) -> 10 % of the engine-G scenarios of every property obtain the observed result through HyperTuner.execute+resolve or as a Multitask trial",
    "C04f": "missed -> boundary-parameter candidates and shrunken problems (2-8 agents, counts scaled) in the observational part of C04",
    "C05f": "caught by the check as it stood (through histories on the same instance); the exact trigger (one Task object re-declared in place between runs) was added as a scenario",
    "C06f": "missed, same root as C02f -> task classes defined after earlier runs + fork-aware unpickling in the pool model (a worker forked earlier dies: BrokenProcessPool)",
    "C07f": "missed (C07 only called optimize() directly) -> the seeded serial runs are also launched as Multitask trials and compared with the plain run",
    "C08f": "missed -> objective family that is exactly 0.0 on a region (hinge): 1/cost paths; caught in 1 run of the quick batch",
    "C09f": "caught by the check as it stood (boundary-parameter candidates of the observational part), 1 run",
    "C10f": "missed -> the earlier runs of an engine-G history may use another configuration of the same instance (larger / smaller / equal population), re-configured before the observed run",
    "C11f": "missed: first every run raised inside the entropy tap (np.random.<Class> must stay a class) and the batch looked like a pass -> vacuity guard, class-preserving taps; then caught through fork semantics for module state + the replayed_positions oracle (C11 now covers integer-coded families)",
    "C12f": "missed -> the direction given as the plain string 'max' after construction (10 % of the C12 scenarios)",
    "C15f": "caught by the check as it stood (histories whose earlier run failed part-way)",
    "C17f": "missed in the quick tier (needs the best initial agent in the last slot of an odd-sized population: < 1 expected run per batch) -> more odd sizes and shrunken problems in C17, value-dependent slowness fault (good points complete last); caught by the thorough tier",
    "C18f": "caught by the check as it stood",
    "C19f": "missed (real optimizers were tuned only in a few fixed scenarios) -> any of the 84 optimizers tuned over its own parameters on a seeded task; every trial must equal a freshly constructed optimizer's run",
    # round 7 (suffix g); for the changes marked "by inspection" the first verdict was not measured by a run: the
    # scenario space as it stood could not contain the trigger (no run of 1000 cycles, no shared EarlyStopping object, ...)
    "C01g": "caught (needs an objective that is exactly 0.0 on a region: the hinge family added in round 6)",
    "C02g": "caught by the check as it stood (narrow boxes far from the origin, a lesson of round 3)",
    "C03g": "missed by inspection (needs > 1000 recorded generations) -> one run of every optimizer per batch executes 1000-2001 cycles (shrunken problem, serial)",
    "C04g": "missed by inspection (needs ONE EarlyStopping object shared by two configurations) -> shared EarlyStopping objects in engine G (another configuration built first) and in C04's scripted histories (prior configurations)",
    "C05g": "caught (tasks with more than 128 variables, a lesson of round 6)",
    "C06g": "missed: the harness switched NumPy's warnings off at the source (np.seterr(all='ignore')), so a leaked 'error' warning filter had nothing to turn into an exception -> NumPy keeps its default error state, warnings are filtered; the list of warning filters is process-private in the fork model",
    "C07g": "missed by inspection (needs an aborted pooled run in the same process before the seeded run) -> C07: between run A and run B a pooled run is aborted by a failing objective evaluation; leftover pool threads keep running in the simulator exactly as after shutdown(wait=False)",
    "C08g": "missed by inspection (C08 ran at most 8 cycles in the quick tier; the schedule switches at max_cycles/2 >= 6) -> 25 % of the C08 cases run 11-40 cycles",
    "C09g": "caught once seeded tasks entered the pooled scenarios (25 % of engine-G tasks carry an integer seed); the race window is opened by the shared-write probe's directed pre-emption (round 2)",
    "C10g": "missed by inspection (needs an objective that raises StopIteration inside a cycle) -> typed objective failures (StopIteration weighted up) in engine G; a run that swallows the failure and returns is judged by the usual oracles.  The same pattern turned out to exist on the unchanged tree (Water Cycle, fixed: 812b87b)",
    "C11g": "missed by inspection (no worker crash in the C11 profile) -> worker_crash in 4 % of the process-mode scenarios of engine G; a BrokenProcessPool after an injected crash is the fault propagating, a result with agents missing is a violation",
    "C12g": "caught by the check as it stood (multi-objective family with weights under max)",
    "C15g": "missed by inspection (needs > 1000 recorded generations) -> same thousand-cycle runs as C03g",
    "C17g": "caught by the check as it stood (negative costs near the optimum: objectives with a constant subtracted, max tasks)",
    "C18g": "caught by the check as it stood (candidate dictionaries with dropped keys on a configured instance)",
    "C19g": "missed by inspection (grid values were never objects) -> C19: an EarlyStopping OBJECT as a grid value together with a short and a longer cycle budget, every trial compared with a freshly constructed optimizer",
    "C20g": "missed by inspection (all algorithms and tasks had distinct classes) -> scenarios in which a class appears twice, recorder keyed by index.  The check then failed on the UNCHANGED tree: two genuine defects, fixed (122c266); the change was re-expressed on top of the fix",
    "C20f": "missed (no failing objective in C20) -> typed objective failures (TypeError, AttributeError, PicklingError, ...) injected into Multitask runs; every started run must have its designated mode",
}


def main():
    res_path = os.path.join(HERE, "seeded", "RESULTS.json")
    res = json.load(open(res_path)) if os.path.exists(res_path) else {}
    rows = []
    for name in sorted(os.listdir(os.path.join(HERE, "seeded"))):
        mp = os.path.join(HERE, "seeded", name, "meta.json")
        if not os.path.exists(mp):
            continue
        m = json.load(open(mp))
        files = ", ".join(os.path.basename(f) for f in (m.get("files_changed") or []))[:60]
        need = " ".join(str(m.get("needs_to_manifest", "")).split())[:150]
        r = res.get(name, {}).get("checks", {})
        caught = ", ".join(f"{c} ({'caught' if v['caught'] else 'MISSED'}, {v['violation_classes']} classes)" for c, v in r.items()) \
            or ", ".join(f"{c} ({v['violation_lines']} VIOLATION lines)" for c, v in m.get("verification", {}).get("checks", {}).items())
        rows.append(f"| {name} | {m['property']} | {files} | {need} | {caught} | {LESSON.get(name, 'caught by the check as it stood')} |")
    print("| Change | Property | Site | Needs, in order to manifest | Checks (final run) | First verdict / what was added |")
    print("|---|---|---|---|---|---|")
    print("\n".join(rows))


if __name__ == "__main__":
    main()
