"""Maintenance tool (run by hand on the reviewed tree, never by a registered check):
merge survey outputs into candidate known findings + the C06 (optimizer, encoding) pair baseline.

usage: build_known.py <survey.json> [<survey.json> ...]
Writes known_findings.candidates.json and classification/c06_pair_baseline.json; replay files of the
candidates go to replays/known/<pid>/.  The candidates are REVIEWED before being copied to known_findings.json.
"""
import hashlib
import json
import os
import re
import sys

HERE = os.path.dirname(os.path.dirname(os.path.abspath(__file__)))
sys.path.insert(0, HERE)


def slug(cls):
    s = "-".join(str(c) for c in cls)
    return re.sub(r"[^A-Za-z0-9_.-]+", "_", s)[:120]


def main():
    classes, pair = {}, {}
    for path in sys.argv[1:]:
        d = json.load(open(path))
        for k, v in d["classes"].items():
            c = classes.setdefault(k, {"n": 0, "msg": v["msg"], "desc": v["desc"], "families": {}, "modes": {}})
            c["n"] += v["n"]
            for f, n in v["families"].items():
                c["families"][f] = c["families"].get(f, 0) + n
            for f, n in v["modes"].items():
                c["modes"][f] = c["modes"].get(f, 0) + n
        for k, (n, f) in d["pair"].items():
            p = pair.setdefault(k, [0, 0])
            p[0] += n
            p[1] += f
    out = []
    for k in sorted(classes):
        pid, cls = k.split("|", 1)
        cls = json.loads(cls)
        v = classes[k]
        root = os.path.join(HERE, "replays", "known", pid)
        os.makedirs(root, exist_ok=True)
        h = hashlib.sha1(json.dumps(v["desc"], sort_keys=True, default=str).encode()).hexdigest()[:8]
        rp = os.path.join(root, f"{slug(cls)}-{h}.json")
        json.dump({"property": pid, "engine": "G", "class": cls, "message": v["msg"], "desc": v["desc"],
                   "minimised": False, "source": "survey"}, open(rp, "w"), indent=1, default=str)
        out.append({"property": pid, "class": cls, "what": v["msg"][:240], "runs_in_survey": v["n"],
                    "families": v["families"], "modes": v["modes"], "replay": os.path.relpath(rp, HERE)})
    json.dump({"candidates": out}, open(os.path.join(HERE, "known_findings.candidates.json"), "w"), indent=1)
    INT = {"discrete", "discrete_multi", "binary", "mixed", "permutation"}
    base = {}
    for k, (n, f) in sorted(pair.items()):
        fam = k.split("|")[1]
        if fam in INT:
            base[k] = {"status": "works" if (n >= 10 and f / n <= 0.3) else ("fails" if f == n else "flaky"),
                       "runs": n, "failed": f}
    json.dump({"note": "C06 baseline of (optimizer, integer-coded family) pairs measured on the reviewed tree by tools/survey.py; "
                       "'works' = failed in at most 30% of >= 10 runs. Registered checks only read this file.",
               "pairs": {k: v["status"] for k, v in base.items()}, "detail": base},
              open(os.path.join(HERE, "classification", "c06_pair_baseline.json"), "w"), indent=1)
    print(len(out), "candidate classes;", sum(1 for v in base.values() if v["status"] == "works"), "working pairs of", len(base))


if __name__ == "__main__":
    main()
