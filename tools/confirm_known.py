"""Maintenance tool: reproduce every candidate known finding from its replay file, minimise it, and write
known_findings.json (reviewed by hand afterwards).  usage: confirm_known.py [--keep-fixed]"""
import json, os, sys, hashlib, re
HERE = os.path.dirname(os.path.dirname(os.path.abspath(__file__)))
sys.path.insert(0, HERE)
from checks import farm, main as cm
from sim import install

def job(c):
    mod = cm.get_module(c["property"])
    data = json.load(open(os.path.join(HERE, c["replay"])))
    vs = mod.replay(c["property"], data["desc"])
    hit = [v for v in vs if v["cls"] == c["class"]]
    if not hit:
        return {"reproduced": False, "seen": [v["cls"] for v in vs]}
    m = mod.minimise(c["property"], data["desc"], c["class"])
    return {"reproduced": True, "desc": m["desc"], "log": m["log"], "msg": m.get("msg") or hit[0]["msg"]}

if __name__ == "__main__":
    install.install()
    cands = json.load(open(os.path.join(HERE, "known_findings.candidates.json")))["candidates"]
    res, to = farm.run_jobs(cands, job, nproc=16, timeout_s=400, init_fn=install.install)
    old = json.load(open(os.path.join(HERE, "known_findings.json"))) if os.path.exists(os.path.join(HERE, "known_findings.json")) else {}
    out = {"note": old.get("note", ""), "findings": [], "fixed": old.get("fixed", [])}
    for c, r in zip(cands, res):
        if not r or not r.get("reproduced"):
            print("NOT REPRODUCED", c["property"], c["class"], r)
            continue
        root = os.path.join(HERE, "replays", "known", c["property"])
        slug = re.sub(r"[^A-Za-z0-9_.-]+", "_", "-".join(map(str, c["class"])))[:120]
        path = os.path.join(root, slug + ".json")
        json.dump({"property": c["property"], "engine": cm.ENGINE_OF[c["property"]], "class": c["class"], "message": r["msg"],
                   "desc": r["desc"], "minimised": True, "minimisation_log": r["log"]}, open(path, "w"), indent=1, default=str)
        os.remove(os.path.join(HERE, c["replay"])) if os.path.join(HERE, c["replay"]) != path else None
        out["findings"].append({"property": c["property"], "class": c["class"], "what": r["msg"][:260],
                                "replay": os.path.relpath(path, HERE), "survey_runs": c["runs_in_survey"],
                                "survey_families": c["families"]})
    json.dump(out, open(os.path.join(HERE, "known_findings.json"), "w"), indent=1)
    print(len(out["findings"]), "findings written")
