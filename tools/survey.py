"""Maintenance tool (never used by a registered check): run engine-G scenarios of every property profile with
ALL oracles and tabulate violation classes.
usage: survey.py <runs_per_profile> <seed0> <n_seeds> <out.json> [tier]"""
import sys, os, json, time, random
sys.path.insert(0, os.path.dirname(os.path.dirname(os.path.abspath(__file__))))
from checks import farm, gprops, engine_g, oracles_g
from sim import install
from sim.kernel import H

ORACLES = {"C01": "c01", "C02": "c02", "C03": "c03", "C04": "c04_obs", "C05": "c05", "C06": "c06", "C10": "c10",
           "C15": "c15", "C17": "c17", "C11": "c11_pool"}

def run_job(job):
    t0 = time.time()
    if job.get("kind") == "invalid":
        r = gprops.run_job(job)
        for v in r["violations"]:
            v["pid"] = "C06"
        r["exc_msg"] = r["exc_origin"] = None
        return r
    desc = gprops.make_desc(job)
    rec = engine_g.run_scenario(desc)
    vs = []
    for pid, name in ORACLES.items():
        if pid == "C11" and desc["mode"] == "serial":
            continue
        for v in getattr(oracles_g, name)(desc, rec):
            v["pid"] = pid
            vs.append(v)
    for v in oracles_g.c15_trend(desc, rec, random.Random(H(job["seed"], "trend"))):
        v["pid"] = "C15"; vs.append(v)
    s = gprops.summarize(job, desc, rec, vs, time.time() - t0)
    s["desc"] = desc if (vs or rec.exc is not None) else None
    s["exc_msg"] = rec.exc_msg
    s["exc_origin"] = rec.exc_origin
    return s

if __name__ == "__main__":
    n, seed0, nseeds, out = int(sys.argv[1]), int(sys.argv[2]), int(sys.argv[3]), sys.argv[4]
    tier = sys.argv[5] if len(sys.argv) > 5 else "quick"
    install.install()
    from checks import mod_c04  # registers the C04 observational profile
    if os.environ.get("SURVEY_OPTS"):
        extra = json.loads(os.environ["SURVEY_OPTS"])
        for spec in gprops.G_PROPS.values():
            spec["opts"].update(extra)
    jobs = []
    for seed in range(seed0, seed0 + nseeds):
        for pid in sorted(gprops.G_PROPS):
            jobs.extend(gprops.plan(pid, tier, seed, n_override=n))
    for k, j in enumerate(jobs):
        j["i"] = k
    t0 = time.time()
    res, to = farm.run_jobs(jobs, run_job, nproc=int(os.environ.get("VERIF_JOBS", "16")), timeout_s=240, init_fn=install.install, log_path="/tmp/survey_farm.log")
    wall = time.time() - t0
    classes, fails, harness, pair = {}, {}, [], {}
    for j, r in zip(jobs, res):
        if r is None: continue
        if "harness_error" in r or "harness_timeout" in r:
            harness.append((j["cell"], j["seed"], j["pid"], str(r)[:600])); continue
        for v in r["violations"]:
            k = v["pid"] + "|" + json.dumps(v["cls"])
            c = classes.setdefault(k, {"n": 0, "msg": v["msg"], "desc": r["desc"], "families": {}, "modes": {}, "faulted": 0})
            c["n"] += 1
            c["families"][r["family"]] = c["families"].get(r["family"], 0) + 1
            c["modes"][r["cell"][2]] = c["modes"].get(r["cell"][2], 0) + 1
            c["faulted"] += 1 if r["fault_kinds"] else 0
        if r["exc"] and not r["injected"]:
            k = json.dumps(r["exc"]) + "|" + r["family"]
            f = fails.setdefault(k, {"n": 0, "msg": r["exc_msg"], "origin": r["exc_origin"], "desc": r["desc"]})
            f["n"] += 1
        k = r["cell"][0] + "|" + r["family"]
        p = pair.setdefault(k, [0, 0]); p[0] += 1; p[1] += 1 if (r["exc"] and not r["injected"]) else 0
    json.dump({"n": len(jobs), "seed0": seed0, "nseeds": nseeds, "tier": tier, "wall": wall, "classes": classes, "fails": fails, "pair": pair,
               "harness": harness, "timeouts": [(jobs[i]["cell"], jobs[i]["seed"]) for i in to]}, open(out, "w"), indent=1)
    print(f"runs={len(jobs)} wall={wall:.1f}s classes={len(classes)} fail_keys={len(fails)} harness={len(harness)} timeouts={len(to)}")
