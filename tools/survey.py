"""Maintenance tool: run engine-G scenarios with ALL oracles and tabulate violation classes.
usage: survey.py <n_runs> <seed> <out.json> [tier]"""
import sys, os, json, time, random
sys.path.insert(0, os.path.dirname(os.path.dirname(os.path.abspath(__file__))))
from checks import farm, gprops, engine_g, oracles_g
from sim import install
from sim.kernel import H
from workload import scenario

ORACLES = {"C01": "c01", "C02": "c02", "C03": "c03", "C04": "c04_obs", "C05": "c05", "C06": "c06", "C10": "c10",
           "C15": "c15", "C17": "c17", "C11": "c11_pool"}
gprops.G_PROPS["SURVEY"] = dict(oracles=[], families=scenario.FAMILIES, modes=scenario.MODES, n_quick=0, n_thorough=0, opts={"cycles_bias_one": True})

def run_job(job):
    t0 = time.time()
    desc = gprops.make_desc(job)
    rec = engine_g.run_scenario(desc)
    vs = []
    for pid, name in ORACLES.items():
        if pid == "C11" and desc["mode"] == "serial":
            continue
        for v in getattr(oracles_g, name)(desc, rec):
            v["pid"] = pid
            vs.append(v)
    for v in oracles_g.c15_trend(desc, rec, random.Random(H(job["seed"], "trend"))):
        v["pid"] = "C15"; vs.append(v)
    s = gprops.summarize(job, desc, rec, vs, time.time() - t0)
    s["desc"] = desc if (vs or rec.exc is not None) else None
    s["exc_msg"] = rec.exc_msg
    s["exc_origin"] = rec.exc_origin
    return s

if __name__ == "__main__":
    n, seed, out = int(sys.argv[1]), int(sys.argv[2]), sys.argv[3]
    tier = sys.argv[4] if len(sys.argv) > 4 else "quick"
    install.install()
    jobs = gprops.plan("SURVEY", tier, seed, n_override=n)
    t0 = time.time()
    res, to = farm.run_jobs(jobs, run_job, nproc=int(os.environ.get("VERIF_JOBS", "16")), timeout_s=120, init_fn=install.install, log_path="/tmp/survey_farm.log")
    wall = time.time() - t0
    classes = {}
    fails = {}
    harness = []
    walls = []
    for j, r in zip(jobs, res):
        if r is None: continue
        if "harness_error" in r or "harness_timeout" in r:
            harness.append((j["cell"], j["seed"], r)); continue
        walls.append((r["wall"], r["cell"]))
        for v in r["violations"]:
            k = v["pid"] + "|" + json.dumps(v["cls"])
            c = classes.setdefault(k, {"n": 0, "msg": v["msg"], "desc": r["desc"], "families": {}, "modes": {}})
            c["n"] += 1
            c["families"][r["family"]] = c["families"].get(r["family"], 0) + 1
            c["modes"][r["cell"][2]] = c["modes"].get(r["cell"][2], 0) + 1
        if r["exc"] and not r["injected"]:
            k = json.dumps(r["exc"]) + "|" + r["family"]
            f = fails.setdefault(k, {"n": 0, "msg": r["exc_msg"], "origin": r["exc_origin"], "desc": r["desc"]})
            f["n"] += 1
    walls.sort(reverse=True)
    # per (optimizer, family) run/fail counts
    pair = {}
    for r in res:
        if r is None or "harness_error" in r or "harness_timeout" in r: continue
        k = r["cell"][0] + "|" + r["family"]
        p = pair.setdefault(k, [0, 0]); p[0] += 1; p[1] += 1 if (r["exc"] and not r["injected"]) else 0
    json.dump({"n": n, "seed": seed, "wall": wall, "classes": classes, "fails": fails, "pair": pair,
               "harness": [(c, s, str(r)[:500]) for c, s, r in harness], "slowest": walls[:30], "timeouts": to}, open(out, "w"), indent=1)
    print(f"runs={n} wall={wall:.1f}s classes={len(classes)} fail_keys={len(fails)} harness={len(harness)} timeouts={len(to)}")
