#!/bin/bash
# Maintenance: run checks under several VERIF_SEEDs (evidence/replays go to scratch dirs) and list unlisted classes.
# usage: multi_seed.sh "<pids>" "<seeds>" [tier]
PIDS="$1"; SEEDS="$2"; TIER="${3:-quick}"
OUT="${MS_OUT:-ms_out}"; mkdir -p "$OUT"
for s in $SEEDS; do for p in $PIDS; do
  VERIF_SEED=$s ./check $p --tier $TIER --no-determinism --evidence-dir "$OUT/ev_$s" --replay-dir "$OUT/rp_$s" > "$OUT/$p.$s.log" 2>&1
  echo "$p seed=$s exit=$? $(grep -c '^VIOLATION' $OUT/$p.$s.log) :: $(tail -1 $OUT/$p.$s.log)"
  grep -A1 '^VIOLATION' "$OUT/$p.$s.log" | grep 'class=' | cut -c1-240
done; done
