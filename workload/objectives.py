"""Pure objective functions and the search-space membership predicate.

Both are functions of a JSON-able *descriptor* (never of a pyvolutionary
object), so oracles can use them independently of the library.

Variable descriptors (``vars``), in declaration order:
  {"type": "cont", "name", "lb", "ub"}
  {"type": "cont_multi" | "multiobj", "name", "lb": [...], "ub": [...]}
  {"type": "discrete", "name", "choices": [numbers]}
  {"type": "discrete_multi", "name", "choices": [[numbers], ...]}
  {"type": "binary", "name", "n"}
  {"type": "perm", "name", "items": [ints 0..n-1]}
"""
from __future__ import annotations

import math
import numbers

import numpy as np


def flat_slots(vars_desc):
    """One entry per coordinate of a position: (kind, payload)."""
    slots = []
    for v in vars_desc:
        t = v["type"]
        if t == "cont":
            slots.append(("c", (float(v["lb"]), float(v["ub"]))))
        elif t in ("cont_multi", "multiobj"):
            for lb, ub in zip(v["lb"], v["ub"]):
                slots.append(("c", (float(lb), float(ub))))
        elif t == "discrete":
            slots.append(("d", list(v["choices"])))
        elif t == "discrete_multi":
            for ch in v["choices"]:
                slots.append(("d", list(ch)))
        elif t == "binary":
            for _ in range(v["n"]):
                slots.append(("d", [0, 1]))
        elif t == "perm":
            slots.append(("p", len(v["items"])))
        else:
            raise ValueError(t)
    return slots


def _is_real(v):
    return isinstance(v, (numbers.Real, np.floating, np.integer)) and not isinstance(v, (bool, np.bool_))


def _is_int(v):
    return isinstance(v, (numbers.Integral, np.integer)) and not isinstance(v, (bool, np.bool_))


def member(vars_desc, x, slots=None):
    """None if ``x`` is a member of the search space, else (defect, index, detail)."""
    slots = slots if slots is not None else flat_slots(vars_desc)
    if isinstance(x, np.ndarray):
        x = x.tolist() if x.dtype != object else list(x)
    if not isinstance(x, (list, tuple)):
        return ("not_a_sequence", -1, type(x).__name__)
    if len(x) != len(slots):
        return ("length", -1, f"{len(x)}!={len(slots)}")
    for i, ((kind, pay), v) in enumerate(zip(slots, x)):
        if kind == "c":
            if not _is_real(v):
                return ("non_numeric", i, type(v).__name__)
            fv = float(v)
            if math.isnan(fv) or math.isinf(fv):
                return ("non_finite", i, repr(fv))
            if fv < pay[0] or fv > pay[1]:
                return ("out_of_bounds", i, f"{fv!r} not in [{pay[0]!r},{pay[1]!r}]")
        elif kind == "d":
            if not _is_int(v):
                if _is_real(v) and (math.isnan(float(v)) or math.isinf(float(v))):
                    return ("non_finite", i, repr(float(v)))
                return ("non_integral_index", i, f"{type(v).__name__}:{v!r}")
            if v < 0 or v >= len(pay):
                return ("index_out_of_range", i, f"{v!r} not in 0..{len(pay) - 1}")
        else:
            if isinstance(v, np.ndarray):
                v = v.tolist()
            if not isinstance(v, (list, tuple)):
                return ("not_a_permutation", i, f"{type(v).__name__}")
            if len(v) != pay or not all(_is_int(e) for e in v) or sorted(int(e) for e in v) != list(range(pay)):
                return ("not_a_permutation", i, repr(v)[:80])
    return None


# --------------------------------------------------------------------------- objectives
def _numeric(slots, x):
    """Map a position to a real vector z and a list of permutations (tolerant: never raises)."""
    z, perms = [], []
    for (kind, pay), v in zip(slots, x):
        if kind == "c":
            try:
                z.append(float(v))
            except Exception:
                z.append(float("nan"))
        elif kind == "d":
            try:
                fv = float(v)
                k = 0 if math.isnan(fv) else int(min(max(fv, 0), len(pay) - 1))
            except Exception:
                k = 0
            z.append(float(pay[k]))
        else:
            try:
                perms.append([int(e) for e in v])
            except Exception:
                perms.append(list(range(pay)))
    return z, perms


def _f_scalar(spec, z, perms):
    fam = spec["family"]
    n = len(z)
    s = spec.get("shift") or [0.0] * n
    w = spec.get("w") or [1.0] * n
    c = spec.get("const", 0.0)
    if fam == "sphere":
        val = math.fsum(w[i] * (z[i] - s[i]) ** 2 for i in range(n)) - c
    elif fam == "rastrigin":
        sc = spec.get("scale", 1.0)
        val = 10.0 * n + math.fsum(((z[i] - s[i]) / sc) ** 2 - 10.0 * math.cos(2 * math.pi * (z[i] - s[i]) / sc)
                                   for i in range(n)) - c
    elif fam == "linear":
        val = math.fsum(w[i] * z[i] for i in range(n)) - c
    elif fam == "abssum":
        val = math.fsum(w[i] * abs(z[i] - s[i]) for i in range(n)) - c
    elif fam == "hinge":
        # constraint-violation style objective: exactly 0.0 inside a ball around the shift, positive outside - converged
        # populations hold many agents whose cost is exactly zero
        val = max(0.0, math.fsum(w[i] * (z[i] - s[i]) ** 2 for i in range(n)) - spec.get("radius2", 0.1))
        if math.isnan(math.fsum(z)):
            val = float("nan")
    elif fam == "plateau":
        q = spec.get("q", 1.0)
        t = math.fsum(abs(z[i] - s[i]) for i in range(n)) / q
        val = (math.floor(t) if not (math.isnan(t) or math.isinf(t)) else t) * spec.get("q2", 1.0) - c
    else:
        raise ValueError(fam)
    for p in perms:
        # assignment-style term: distinguishes a permutation from its inverse
        pw = spec.get("perm_w") or list(range(1, len(p) + 1))
        val += math.fsum((i + 1) * pw[p[i] % len(pw)] for i in range(len(p))) * spec.get("perm_scale", 1.0)
        cities = spec.get("cities")
        if cities:
            m = len(p)
            val += math.fsum(math.dist(cities[p[i] % len(cities)], cities[p[(i + 1) % m] % len(cities)])
                             for i in range(m))
    pen = spec.get("penalty")
    if pen and n > pen["axis"] and (z[pen["axis"]] > pen["thr"]) == (pen.get("side", "above") == "above"):
        val = float(pen["value"])          # "inf" / "-inf": an infeasible region penalised with the worst value
    if spec.get("negate"):
        val = -val
    return val


def evaluate(task_desc, x, slots=None):
    """The user's objective: float, or list of floats for a multi-objective task.  Pure."""
    slots = slots if slots is not None else flat_slots(task_desc["vars"])
    z, perms = _numeric(slots, x)
    obj = task_desc["objective"]
    if "multi" in obj:
        return [_f_scalar(spec, z, perms) for spec in obj["multi"]]
    return _f_scalar(obj, z, perms)


def true_cost(task_desc, x, slots=None):
    """Reported cost the statement demands: objective at x, weight-vector dot product if multi-objective."""
    v = evaluate(task_desc, x, slots)
    ob = task_desc["objective"]
    if "multi" not in ob and ob.get("user_state"):
        v = v + float(ob.get("user_offset", 0.0))          # the value the user's module state had for this run
    if task_desc.get("weights") is not None:
        return float(np.dot(v, task_desc["weights"]))
    return v


def fitness_of(cost):
    return (1 / (cost + 1)) if cost >= 0 else (1 + abs(cost))
