"""Engine S parties: optimizers supplied by the simulator (real base-class ``optimize()`` loop,
scripted update rule).  Module-level and picklable."""
from __future__ import annotations

from typing import Any

from sim import kernel

_READY = False
CLASSES: dict = {}


def ensure():
    """Create the classes lazily: pyvolutionary must be importable from VERIF_REPO first."""
    global _READY
    if _READY:
        return CLASSES
    from pyvolutionary.abstract import OptimizationAbstract
    from pyvolutionary.models import BaseOptimizationConfig
    from sim import install

    class ScriptedConfig(BaseOptimizationConfig):
        """init: user-sign costs of the initial generation; script[k]: costs installed by cycle k+1."""
        init: list[float] = [1.0]
        script: list[list[float]] = [[1.0]]
        table: list[float] | None = None      # lookup mode: positions are indexes into this table of costs

    class ScriptedOptimizer(OptimizationAbstract):
        """Installs, at cycle k, a population whose (user-sign) costs are script[k-1]."""

        def __init__(self, config: ScriptedConfig | None = None, debug: bool | None = False):
            super().__init__(config, debug)

        def set_config_parameters(self, parameters: dict[str, Any]):
            self._config = ScriptedConfig(**parameters)

        def _pos(self, c):
            t = self._config.table
            if t is None:
                return [c]
            for i, v in enumerate(t):
                if v == c or (v != v and c != c):
                    return [i]
            raise ValueError(f"cost {c!r} not in the table")

        def _init_population(self):
            self._script_k = 0                   # invocations of optimization_step in this run
            self._population = [self._init_agent(self._pos(c)) for c in self._config.init]

        def optimization_step(self):
            sim = kernel.ACTIVE
            calls = sim.obs.setdefault("scripted_steps", []) if sim is not None else []
            calls.append(self._current_cycle)
            self._script_k = getattr(self, "_script_k", 0) + 1
            k = self._script_k                   # number of invocations in this run (independent of the cycle counter)
            row = self._config.script[min(k - 1, len(self._config.script) - 1)]
            self._population = [self._init_agent(self._pos(c)) for c in row]

    class TunableConfig(BaseOptimizationConfig):
        a: float = 0.0
        b: float = 0.0
        c: int = 0
        noise: float = 0.0
        table: dict | None = None         # optional explicit score table: key "a|b|c" -> [base, amplitude]

    class TunableOptimizer(OptimizationAbstract):
        """Best cost is a known function of (a, b, c) plus parameter-controlled noise from the simulated stream."""

        def __init__(self, config: TunableConfig | None = None, debug: bool | None = False):
            super().__init__(config, debug)

        def set_config_parameters(self, parameters: dict[str, Any]):
            self._config = TunableConfig(**parameters)

        def score(self):
            import numpy as np
            cfg = self._config
            key = f"{cfg.a!r}|{cfg.b!r}|{cfg.c!r}"
            if cfg.table and key in cfg.table:
                base, amp = cfg.table[key]
            else:
                base, amp = (cfg.a - 1.0) ** 2 + 0.5 * cfg.b + 0.25 * cfg.c, cfg.noise
            e = float(np.random.uniform(-1.0, 1.0))
            return base + amp * e

        def after_initialization(self):
            sim = kernel.ACTIVE
            if sim is not None:
                t = sim.cur()
                runs = sim.obs.setdefault("party_runs", [])
                self._run_id = len(runs)
                runs.append({
                    "algorithm": type(self).__name__, "task": type(self._task).__name__,
                    "algo_index": self._config.c,
                    "task_index": ((self._task.data or {}).get("desc") or {}).get("objective", {}).get("tag"),
                    "params": {k: v for k, v in self._config.model_dump().items() if k != "table"},
                    "mode": str(self._mode), "workers": self._workers, "ctx": t.ctx.pid if t else -1,
                    "ctx_parent": t.ctx.parent if t else None, "values": [], "init_size": len(self._population)})

        def optimization_step(self):
            v = self.score()
            self._population = [self._init_agent([v]) for _ in range(self._config.population_size)]
            sim = kernel.ACTIVE
            if sim is not None:
                sim.obs["party_runs"][self._run_id]["values"].append(v)

    def make_party(name):
        cls = type(name, (TunableOptimizer,), {"__module__": __name__})
        return cls

    ns = {"ScriptedConfig": ScriptedConfig, "ScriptedOptimizer": ScriptedOptimizer, "TunableConfig": TunableConfig,
          "TunableOptimizer": TunableOptimizer}
    for n in ("PartyAlpha", "PartyBeta", "PartyGamma"):
        ns[n] = make_party(n)
    for n, c in ns.items():
        c.__module__ = __name__
        c.__qualname__ = n
        globals()[n] = c
        CLASSES[n] = c
    for n in ("ScriptedOptimizer", "TunableOptimizer", "PartyAlpha", "PartyBeta", "PartyGamma"):
        install.wrap_optimizer_class(CLASSES[n])
    _READY = True
    return CLASSES
