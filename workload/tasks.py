"""The foreign party (N5): Task subclasses supplied by the simulator.

Module-level and picklable.  ``objective_function`` is a seam: pre-emption
point on entry and exit, argument recorded *before* evaluation into the
simulator (not into the pickled task, so calls made inside simulated worker
processes are seen), may raise / be slow on the fault plan's orders, otherwise
a deterministic pure function of its argument (workload.objectives.evaluate).
"""
from __future__ import annotations

from typing import Any

from sim import kernel
from workload import objectives


class ObjectiveFault(RuntimeError):
    """Injected failure of the user's objective function."""


# User-side module state the objective depends on (a benchmark object, a data set, a tuning constant kept in a global of
# the user's script).  Process-private like every module global: a forked worker sees the value of the moment it was
# forked (registered with sim.procstate so that simulated worker processes get their own copy).
USER_STATE = {"offset": 0.0}

from sim import procstate as _procstate  # noqa: E402
_procstate.register(__import__("sys").modules[__name__], "USER_STATE")

# Task classes that came into existence during a simulation (a class defined in a notebook cell / REPL after earlier
# runs): name -> (serial of the simulation, logical time of the definition).  A worker process forked before that
# moment cannot unpickle an instance of such a class.
CLASS_BORN: dict = {}


def _objective_entry(task, x):
    desc = task.data["desc"]
    sim = kernel.ACTIVE
    if sim is not None and not sim.aborting:
        sim.yield_point("obj_call")
        hook = sim.obs.get("on_obj_call")
        if hook is not None:
            hook(sim, task, desc, x)        # membership check, counting, fault injection (may raise)
    xe = x
    ob = desc["objective"]
    if isinstance(ob, dict) and ob.get("via_decode"):
        # the user's objective decodes its argument through the library, as the repository's TSP example does
        v = desc["vars"][0]
        decoded = task.transform_solution(x)[v["name"]]
        index = {lab: i for i, lab in enumerate(v["labels"])}
        xe = [[index.get(lab, -1) for lab in decoded]]
    val = objectives.evaluate(desc, xe)
    if isinstance(ob, dict) and ob.get("user_state"):
        val = val + USER_STATE["offset"]
    if isinstance(ob, dict) and ob.get("np_return"):
        import numpy as _np
        val = [_np.float64(v) for v in val] if isinstance(val, list) else _np.float64(val)
    if sim is not None and not sim.aborting:
        fp = sim.fault_plan
        if fp is not None and getattr(fp, "slow_good", False):
            fp.on_obj_value(sim, val, str(getattr(task.minmax, "value", task.minmax)) == "max")
        if fp is not None and getattr(fp, "scribble", False):
            _scribble(sim, x)
        sim.event("obj_ret", "")
        sim.yield_point("obj_ret")
    return val


def _scribble(sim, x):
    """Foreign-party misbehaviour: the user's objective works in place on its argument (sorts it, rescales it,
    appends to it).  Legal user code - the library must not let that leak into what it stores or evaluates next."""
    try:
        if isinstance(x, list):
            for i in range(len(x)):
                if isinstance(x[i], list):
                    x[i][:] = [-1 for _ in x[i]] + [-1]
                else:
                    x[i] = 1e300
            x.append(1e300)
            sim.count("fault_fired:objective_scribbles")
        elif hasattr(x, "fill"):
            x.fill(1e300)
            sim.count("fault_fired:objective_scribbles")
    except Exception:
        pass


def make_task_class(name):
    from pyvolutionary import Task

    def objective_function(self, x: list[Any]):
        return _objective_entry(self, x)

    cls = type(name, (Task,), {"objective_function": objective_function, "__module__": __name__})
    return cls


_CLASSES: dict = {}


def task_class(name="SimTask"):
    if name not in _CLASSES:
        cls = make_task_class(name)
        globals()[name] = cls            # picklable by reference
        _CLASSES[name] = cls
    return _CLASSES[name]


def build_variables(vars_desc):
    import pyvolutionary as pv
    out = []
    for v in vars_desc:
        t = v["type"]
        if t == "cont":
            out.append(pv.ContinuousVariable(name=v["name"], lower_bound=v["lb"], upper_bound=v["ub"]))
        elif t == "cont_multi":
            out.append(pv.ContinuousMultiVariable(name=v["name"], lower_bounds=list(v["lb"]),
                                                  upper_bounds=list(v["ub"])))
        elif t == "multiobj":
            out.append(pv.MultiObjectiveVariable(name=v["name"], lower_bounds=tuple(v["lb"]),
                                                 upper_bounds=tuple(v["ub"])))
        elif t == "discrete":
            out.append(pv.DiscreteVariable(name=v["name"], choices=list(v["choices"])))
        elif t == "discrete_multi":
            out.append(pv.DiscreteMultiVariable(name=v["name"], choices=[list(c) for c in v["choices"]]))
        elif t == "binary":
            out.append(pv.BinaryVariable(name=v["name"], n_vars=v["n"]))
        elif t == "perm":
            out.append(pv.PermutationVariable(name=v["name"], items=list(v.get("labels") or v["items"])))
        else:
            raise ValueError(t)
    return out


def build_task(task_desc):
    """Construct the real pydantic Task from a descriptor (raises what the real validators raise)."""
    import copy
    cls = task_class(task_desc.get("cls", "SimTask"))
    if task_desc.get("late"):
        sim = kernel.ACTIVE
        if sim is not None:
            CLASS_BORN[cls.__name__] = (sim.serial, sim.nevents)
            sim.count("late_defined_task_classes")
    ob_ = task_desc.get("objective")
    if isinstance(ob_, dict) and ob_.get("user_state"):
        USER_STATE["offset"] = float(ob_.get("user_offset", 0.0))      # the user's script sets its global, then builds the task
    kwargs = dict(
        variables=build_variables(task_desc["vars"]),
        minmax=task_desc.get("minmax", "min"),
        data={"desc": copy.deepcopy({k: task_desc[k] for k in ("vars", "objective", "weights") if k in task_desc})},
    )
    if task_desc.get("weights") is not None:
        kwargs["objective_weights"] = list(task_desc["weights"])
    if task_desc.get("seed") is not None:
        kwargs["seed"] = task_desc["seed"]
    t = cls(**kwargs)
    if task_desc.get("minmax_raw") and task_desc.get("minmax") == "max":
        # the direction given as the plain string of the enumeration's value after construction (not validated again by
        # the model, accepted and honoured by the library): task.minmax = "max"
        t.minmax = "max"
    return t


for _n in ("SimTask", "SimTaskA", "SimTaskB", "SimTaskC"):
    pass  # classes are created lazily (pyvolutionary must be importable from VERIF_REPO first)
