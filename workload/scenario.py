"""Seeded, stratified scenario generation (DESIGN §5.2).

Everything is a pure function of the integers passed in; descriptors are
JSON-able and self-contained (a replay file carries the descriptor, not the
generator inputs).
"""
from __future__ import annotations

import copy
import json
import os
import random

from sim.kernel import H

FAMILIES = ["cont_multi", "cont_single", "cont_mixed", "multi_objective",
            "discrete", "discrete_multi", "binary", "mixed", "permutation"]
CONT_FAMILIES = ["cont_multi", "cont_single", "cont_mixed", "multi_objective"]
INT_FAMILIES = ["discrete", "discrete_multi", "binary", "mixed", "permutation"]
MODES = ["serial", "thread", "process"]
SCALES = [1e-3, 1.0, 1e2, 1e6]
COMMON = ("population_size", "fitness_error", "max_cycles", "early_stopping")

_HERE = os.path.dirname(os.path.dirname(os.path.abspath(__file__)))
_BASE = None


def base_configs():
    global _BASE
    if _BASE is None:
        _BASE = json.load(open(os.path.join(_HERE, "workload", "base_configs.json")))
    return _BASE


def optimizer_names():
    return sorted(base_configs())


def _rnd(x, nd=6):
    return float(f"{x:.{nd}g}")


# ------------------------------------------------------------------------- tasks
def gen_bounds(r: random.Random, scale: float, shape: str | None = None):
    shape = shape or r.choice(["sym", "sym", "sym", "asym", "asym", "zero_lo", "zero_lo", "zero_hi", "zero_hi", "neg", "neg",
                               "pos", "pos", "far_narrow", "computed"])
    s = scale
    if shape == "computed":
        # bounds that are results of a computation (1/3, pi/3, sqrt(2)...): no short decimal representation
        c = [1.0 / 3.0, 2.0 / 3.0, 3.141592653589793 / 3.0, 2.0 ** 0.5, 0.1 + 0.2, 2.718281828459045 / 7.0]
        lo = s * r.choice(c) * r.choice([1.0, -1.0, -2.0])
        return lo, lo + s * r.choice(c) * r.choice([1.0, 3.0])
    if shape == "far_narrow":
        # a narrow box far from the origin (timestamps, frequencies): offset ~ 1e7..1e9 widths
        off = r.choice([1e7, 1e8, 1e9]) * s * r.choice([1.0, -1.0])
        w = _rnd(s * r.uniform(0.5, 2.0))
        lo = float(_rnd(off, 12))
        return lo, lo + w
    if shape == "sym":
        return -s, s
    if shape == "asym":
        return _rnd(-s * r.uniform(0.1, 1.0)), _rnd(s * r.uniform(0.1, 3.0))
    if shape == "zero_lo":
        return 0.0, _rnd(s * r.uniform(0.5, 2.0))
    if shape == "zero_hi":
        return _rnd(-s * r.uniform(0.5, 2.0)), 0.0
    if shape == "neg":
        return -2.0 * s, _rnd(-s * r.uniform(0.1, 0.9))
    return _rnd(s * r.uniform(0.1, 0.9)), 2.0 * s


def _scalar_spec(r: random.Random, lows, highs, family=None, has_perm=0):
    n = len(lows)
    fam = family or r.choice(["sphere", "sphere", "rastrigin", "linear", "plateau", "abssum", "hinge"])
    spec = {"family": fam}
    shift = []
    for lo, hi in zip(lows, highs):
        u = r.choice([0.0, 1.0]) if r.random() < 0.2 else r.uniform(0.1, 0.9)
        shift.append(_rnd(lo + u * (hi - lo)))
    spec["shift"] = shift
    if n == 0:
        spec["family"] = fam = "linear"
    elif r.random() < 0.8:
        # normalised weights: every term is O(1) whatever the scale of the bounds
        if fam in ("sphere",):
            spec["w"] = [_rnd(1.0 / max((hi - lo) ** 2, 1e-300)) for lo, hi in zip(lows, highs)]
        elif fam in ("abssum", "linear"):
            spec["w"] = [_rnd(r.choice([1, 1, -1] if fam == "linear" else [1]) / max(hi - lo, 1e-300))
                         for lo, hi in zip(lows, highs)]
        if fam == "rastrigin":
            spec["scale"] = _rnd(max(max(hi - lo for lo, hi in zip(lows, highs)) / 10.0, 1e-300))
        if fam == "plateau":
            spec["q"] = _rnd(max(sum(hi - lo for lo, hi in zip(lows, highs)) / r.choice([3, 6, 12]), 1e-300))
    elif fam == "plateau":
        spec["q"] = _rnd(max(sum(hi - lo for lo, hi in zip(lows, highs)) / r.choice([3, 6, 12]), 1e-300))
    spec["const"] = r.choice([0.0, 0.0, 0.5, _rnd(0.5 * n), 3.0, -2.0])
    if fam == "hinge":
        spec["w"] = [_rnd(1.0 / max((hi - lo) ** 2, 1e-300)) for lo, hi in zip(lows, highs)]
        spec["radius2"] = _rnd(max(n, 1) * r.choice([0.02, 0.1, 0.3]))
        spec["const"] = 0.0
    if has_perm:
        spec["perm_w"] = [r.randrange(1, 10) for _ in range(has_perm)]
        spec["perm_scale"] = r.choice([1.0, 0.1])
        if r.random() < 0.5:
            spec["cities"] = [[r.randrange(0, 100), r.randrange(0, 100)] for _ in range(has_perm)]
    return spec


def _choices(r: random.Random, k=None):
    k = k or r.randrange(2, 7)
    base = r.choice([1, 10, 0.5])
    vals = [_rnd(base * r.uniform(-3, 3), 3) for _ in range(k)]
    if r.random() < 0.5:
        vals = sorted(vals)
    return vals


def gen_task(r: random.Random, family: str, minmax: str | None = None, dim_max: int = 8, cls: str = "SimTask",
             big_dim: int | None = None):
    scale = r.choice(SCALES) if r.random() < 0.6 else 1.0 * r.choice([1, 5, 10])
    vars_, lows, highs = [], [], []
    perm_n = 0

    def add_cont(name, k=None, multi=True, vtype="cont_multi"):
        k = k or r.randrange(1, dim_max + 1)
        same = r.random() < 0.6
        b0 = gen_bounds(r, scale)
        lb, ub = [], []
        for _ in range(k):
            lo, hi = b0 if same else gen_bounds(r, scale if r.random() < 0.7 else r.choice(SCALES))
            lb.append(lo)
            ub.append(hi)
        lows.extend(lb)
        highs.extend(ub)
        if multi:
            vars_.append({"type": vtype, "name": name, "lb": lb, "ub": ub})
        else:
            vars_.append({"type": "cont", "name": name, "lb": lb[0], "ub": ub[0]})

    def add_disc(name):
        ch = _choices(r)
        vars_.append({"type": "discrete", "name": name, "choices": ch})
        lows.append(min(ch))
        highs.append(max(ch))

    if family == "cont_multi":
        add_cont("x", k=big_dim)
    elif family == "cont_single":
        add_cont("x", 1, multi=False)
    elif family == "cont_mixed":
        for i in range(r.randrange(2, 4)):
            if r.random() < 0.5:
                add_cont(f"v{i}", 1, multi=False)
            else:
                add_cont(f"v{i}", r.randrange(1, 4))
    elif family == "multi_objective":
        add_cont("x", r.randrange(2, 5), vtype="multiobj")
    elif family == "discrete":
        for i in range(r.randrange(1, 5)):
            add_disc(f"d{i}")
    elif family == "discrete_multi":
        k = r.randrange(1, 5)
        chs = [_choices(r) for _ in range(k)]
        vars_.append({"type": "discrete_multi", "name": "dm", "choices": chs})
        for ch in chs:
            lows.append(min(ch))
            highs.append(max(ch))
    elif family == "binary":
        k = r.randrange(1, 9)
        vars_.append({"type": "binary", "name": "b", "n": k})
        lows.extend([0.0] * k)
        highs.extend([1.0] * k)
    elif family == "mixed":
        kinds = ["cont", "cont_multi", "discrete", "binary", "discrete_multi"]
        for i in range(r.randrange(2, 5)):
            kd = r.choice(kinds)
            if kd == "cont":
                add_cont(f"c{i}", 1, multi=False)
            elif kd == "cont_multi":
                add_cont(f"m{i}", r.randrange(1, 4))
            elif kd == "discrete":
                add_disc(f"d{i}")
            elif kd == "binary":
                k = r.randrange(1, 4)
                vars_.append({"type": "binary", "name": f"b{i}", "n": k})
                lows.extend([0.0] * k)
                highs.extend([1.0] * k)
            else:
                chs = [_choices(r) for _ in range(r.randrange(1, 3))]
                vars_.append({"type": "discrete_multi", "name": f"dm{i}", "choices": chs})
                for ch in chs:
                    lows.append(min(ch))
                    highs.append(max(ch))
        if r.random() < 0.25:
            perm_n = r.randrange(3, 6)
            vars_.append({"type": "perm", "name": "p", "items": list(range(perm_n))})
    elif family == "permutation":
        perm_n = r.randrange(3, 8)
        v = {"type": "perm", "name": "routes", "items": list(range(perm_n))}
        if r.random() < 0.45:
            # named items (strings, declared in sorted order so that label i <-> index i), and an objective that
            # decodes its argument through the library (Task.transform_solution), like the repository's TSP example
            v["labels"] = [f"{r.choice(['city', 'node', 'job'])}{i:02d}" for i in range(perm_n)]
            if r.random() < 0.5:
                v["labels"] = ["z" + l if r.random() < 0.3 else l for l in v["labels"]]
            v["labels"] = sorted(set(v["labels"]))
            while len(v["labels"]) < perm_n:
                v["labels"].append(f"zz{len(v['labels']):02d}")
            v["labels"] = sorted(v["labels"])
        vars_.append(v)
    else:
        raise ValueError(family)

    desc = {"cls": cls, "family": family, "vars": vars_,
            "minmax": minmax or r.choice(["min", "min", "max"])}
    if family == "multi_objective":
        k = r.randrange(2, 4)
        desc["objective"] = {"multi": [_scalar_spec(r, lows, highs) for _ in range(k)]}
        w = [r.choice([0.0, 0.1, 0.4, 0.5, 1.0, 2.0]) for _ in range(k)]
        if not any(w):
            w[0] = 1.0
        desc["weights"] = w
    else:
        desc["objective"] = _scalar_spec(r, lows, highs, has_perm=perm_n)
        if family == "permutation" and vars_[0].get("labels"):
            desc["objective"]["via_decode"] = True
    return desc


def var_ranges(vars_):
    """(lows, highs, perm_n) of the numeric vector the objectives see, from a list of variable descriptors."""
    lows, highs, perm_n = [], [], 0
    for v in vars_:
        t = v["type"]
        if t == "cont":
            lows.append(v["lb"])
            highs.append(v["ub"])
        elif t in ("cont_multi", "multiobj"):
            lows.extend(v["lb"])
            highs.extend(v["ub"])
        elif t == "discrete":
            lows.append(min(v["choices"]))
            highs.append(max(v["choices"]))
        elif t == "discrete_multi":
            for ch in v["choices"]:
                lows.append(min(ch))
                highs.append(max(ch))
        elif t == "binary":
            lows.extend([0.0] * v["n"])
            highs.extend([1.0] * v["n"])
        elif t == "perm":
            perm_n = len(v["items"])
    return lows, highs, perm_n


def other_objective(r: random.Random, task):
    """Same search space, another objective (and possibly the other direction)."""
    t = copy.deepcopy(task)
    lows, highs, perm_n = var_ranges(t["vars"])
    if "multi" in t["objective"]:
        t["objective"] = {"multi": [_scalar_spec(r, lows, highs) for _ in t["objective"]["multi"]]}
        if t.get("weights"):
            # same number of objectives, another trade-off
            w = [r.choice([0.0, 0.1, 0.4, 0.5, 1.0, 2.0, 3.0]) for _ in t["weights"]]
            if not any(w):
                w[0] = 1.0
            t["weights"] = w
    else:
        t["objective"] = _scalar_spec(r, lows, highs, has_perm=perm_n)
    if r.random() < 0.5:
        t["minmax"] = "max" if t["minmax"] == "min" else "min"
    return t


def other_space(r: random.Random, task):
    """Same task class, same variable structure and dimension, but other bounds / choice lists."""
    t = copy.deepcopy(task)
    for v in t["vars"]:
        ty = v["type"]
        if ty == "cont":
            w = v["ub"] - v["lb"]
            k = r.choice([-3.0, 2.0, 0.25])
            v["lb"], v["ub"] = _rnd(v["lb"] + k * w), _rnd(v["lb"] + k * w + w * r.choice([0.1, 1.0, 5.0]))
        elif ty in ("cont_multi", "multiobj"):
            k = r.choice([-3.0, 2.0, 0.25])
            s = r.choice([0.1, 1.0, 5.0])
            lb, ub = [], []
            for lo, hi in zip(v["lb"], v["ub"]):
                w = hi - lo
                lb.append(_rnd(lo + k * w))
                ub.append(_rnd(lo + k * w + w * s))
            v["lb"], v["ub"] = lb, ub
        elif ty == "discrete":
            v["choices"] = _choices(r, max(2, len(v["choices"]) + r.choice([-2, -1, 1, 3])))
        elif ty == "discrete_multi":
            v["choices"] = [_choices(r, max(2, len(ch) + r.choice([-2, -1, 1, 3]))) for ch in v["choices"]]
    return other_objective(r, t)


def gen_history(r: random.Random, task, p=0.2):
    """The optimizer instance / the process has been used before (DESIGN §4 `instance_history`)."""
    if r.random() >= p:
        return []
    out = []
    for _ in range(r.choice([1, 1, 2])):
        kind = r.choice(["other_objective", "other_objective", "other_space", "other_task", "same"])
        if kind == "other_objective":
            t = other_objective(r, task)
        elif kind == "other_space":
            t = other_space(r, task)
        elif kind == "same":
            t = copy.deepcopy(task)
        else:
            t = gen_task(r, r.choice(["cont_multi", "cont_mixed", "discrete", "mixed"]))
        out.append({"task": t, "instance": r.choice(["same", "same", "other"]), "kind": kind})
    if r.random() < 0.6:
        # equal integer seeds: the earlier run and the observed run start from the same initial positions
        s = r.choice([0, 1, 42, 12345])
        task["seed"] = s
        for h in out:
            h["task"]["seed"] = s
    return out


# ------------------------------------------------------------------------- configurations
_DEFAULTS = {}


def config_defaults(optimizer):
    """Fields of the optimizer's config model that have defaults and are absent from the base dict."""
    if optimizer not in _DEFAULTS:
        import pyvolutionary as pv
        b = base_configs()[optimizer]
        cls = getattr(pv, b["config_class"])
        out = {}
        for n, f in cls.model_fields.items():
            if n in b["params"] or n in COMMON:
                continue
            d = f.default
            if isinstance(d, (bool, int, float)) or (isinstance(d, list) and d):
                out[n] = d
        _DEFAULTS[optimizer] = out
    return _DEFAULTS[optimizer]


_EXTREME = {}


def extreme_candidates(optimizer, validate):
    """Boundary / far-away values of the optimizer's own parameters that its config validators accept
    (finite, enumerable set; the validators in /repo are the authority)."""
    if optimizer in _EXTREME:
        return _EXTREME[optimizer]
    base = base_configs()[optimizer]["params"]
    cur = dict(base)
    cur.update(config_defaults(optimizer))
    out = []
    for k in sorted(cur):
        if k in COMMON:
            continue
        v = cur[k]
        cands = []
        if isinstance(v, bool):
            cands = [not v]
        elif isinstance(v, int):
            cands = [1, 2, 3, v * 2, v * 5, v + 7]
        elif isinstance(v, float):
            cands = [0.0, 1e-6, 0.01, 0.5, 0.97, 0.999, 1.0, 1.5, _rnd(v * 3), _rnd(v * 10), _rnd(v / 10)]
        elif isinstance(v, list) and v and all(isinstance(e, (int, float)) and not isinstance(e, bool) for e in v):
            cands = [[v[0]] * len(v), list(reversed(v)), [type(e)(e * 3) for e in v], [v[-1]] * len(v)]
            if all(isinstance(e, float) for e in v):
                cands += [[0.0] * len(v), [1.0] * len(v), [0.999] * len(v)]
        for c in cands:
            if c == v:
                continue
            q = dict(base)
            q[k] = c
            try:
                validate(optimizer, q)
            except Exception:
                continue
            out.append((k, c))
    # structural candidates first (reordered / degenerate lists, flags, counts), scalar magnitudes after them: a batch
    # that can only afford a prefix of the list covers the former in every run
    out.sort(key=lambda kc: (0 if isinstance(kc[1], list) else 1 if isinstance(kc[1], bool) else
                             2 if isinstance(kc[1], int) else 3))
    _EXTREME[optimizer] = out
    return out


def perturb_value(r: random.Random, v):
    if isinstance(v, bool):
        return not v
    if isinstance(v, int):
        return v + r.choice([-2, -1, -1, 1, 1, 2, 3])
    if isinstance(v, float):
        return _rnd(v * r.choice([0.7, 1.3]))
    if isinstance(v, list) and v:
        v = list(v)
        i = r.randrange(len(v))
        v[i] = perturb_value(r, v[i])
        return v
    return v


def gen_config(r: random.Random, optimizer: str, validate, *, cycles=(1, 12), perturb_p=0.3,
               pop_scales=(1, 1, 1.5, 2, 3), stop_opts=True, any_pop_p=0.3, extreme_p=0.0, extreme_index=None):
    """``validate(optimizer, params)`` builds the real config (raises if the validators reject)."""
    base = copy.deepcopy(base_configs()[optimizer]["params"])
    p = dict(base)
    p["population_size"] = int(base["population_size"] * r.choice(pop_scales))
    if any_pop_p and r.random() < any_pop_p:
        # any size at or above the documented scale (odd sizes, group remainders)
        p["population_size"] = base["population_size"] + r.randrange(0, 2 * base["population_size"] + 1)
    lo, hi = cycles
    p["max_cycles"] = r.choice([1, 2, 3]) if r.random() < 0.25 else r.randrange(lo, hi + 1)
    if stop_opts:
        p["fitness_error"] = r.choice([None, None, None, 0.0, 1e-3, 0.1, 0.5, 10.0])
        if r.random() < 0.25:
            p["early_stopping"] = {"patience": r.randrange(1, 5), "min_delta": r.choice([1e-4, 1e-2, 1.0])}
            if r.random() < 0.12:
                # the model's fields are optional: unset ones mean the documented defaults (1, 1e-4)
                p["early_stopping"][r.choice(["patience", "min_delta"])] = None
    else:
        p["fitness_error"] = None
    perturbed = []
    if extreme_index is not None or (extreme_p and r.random() < extreme_p):
        # one parameter at a boundary / far-away value that the validators accept
        ex = extreme_candidates(optimizer, validate)
        if ex:
            k, c = ex[extreme_index % len(ex)] if extreme_index is not None else ex[r.randrange(len(ex))]
            q = dict(p)
            q[k] = copy.deepcopy(c)
            try:
                validate(optimizer, q)
                p = q
                perturbed.append(k)
            except Exception:
                pass
    elif r.random() < perturb_p:
        defaults = config_defaults(optimizer)
        # fields the fixtures leave at their defaults select code paths no test reaches: weigh them up
        keys = sorted(k for k in base if k not in COMMON) + 3 * sorted(defaults)
        r.shuffle(keys)
        for k in list(dict.fromkeys(keys))[:r.randrange(1, 3)]:
            q = dict(p)
            cur = base[k] if k in base else defaults[k]
            if k in defaults and isinstance(cur, int) and not isinstance(cur, bool) and 0 <= cur <= 3:
                q[k] = r.choice([v for v in range(0, 5) if v != cur])       # small enumerations ("strategy" switches)
            else:
                q[k] = perturb_value(r, cur)
            try:
                validate(optimizer, q)
            except Exception:
                continue
            p = q
            perturbed.append(k)
    return p, perturbed


# ------------------------------------------------------------------------- faults, schedules
STREAM_FAULTS = ["stream_bias_low", "stream_bias_high", "index_extreme", "index_repeat", "objective_scribbles"]
POOL_FAULTS = ["objective_slow", "stalled_worker", "ac_order", "objective_slow_good"]


def gen_faults(r: random.Random, mode: str, workers: int, horizon: int = 3000, p_none: float = 0.45,
               kinds=None):
    if r.random() < p_none:
        return []
    kinds = list(kinds if kinds is not None else STREAM_FAULTS + (POOL_FAULTS if mode != "serial" else []))
    r.shuffle(kinds)
    out = []
    for k in kinds[:r.randrange(1, 4)]:
        if k in ("stream_bias_low", "stream_bias_high"):
            out.append({"kind": k, "start": r.randrange(0, horizon), "len": r.randrange(5, 51)})
        elif k == "index_extreme":
            out.append({"kind": k, "start": r.randrange(0, horizon), "len": r.randrange(5, 200),
                        "which": r.choice(["first", "last"])})
        elif k == "index_repeat":
            out.append({"kind": k, "start": r.randrange(0, horizon), "len": r.randrange(5, 200)})
        elif k == "objective_slow":
            out.append({"kind": k, "every": r.randrange(2, 8), "phase": r.randrange(0, 8), "slow": r.randrange(2, 12)})
        elif k == "stalled_worker":
            out.append({"kind": k, "widx": r.randrange(0, max(1, workers)), "slow": r.randrange(3, 20)})
        elif k == "ac_order":
            out.append({"kind": k, "mode": r.choice(["reverse", "identity"])})
        elif k in ("objective_scribbles", "objective_slow_good"):
            out.append({"kind": k})
    return out


def gen_sched(r: random.Random, p_line: float = 0.0):
    pol = r.choice(["sticky", "sticky", "uniform", "roundrobin", "skewed", "lifo"])
    s = {"policy": pol, "seed": r.randrange(1 << 30)}
    if pol == "sticky":
        s["p"] = r.choice([0.5, 0.8, 0.95])
    if p_line and r.random() < p_line:
        s["granularity"] = "line"
        s["preemptions"] = r.choice([1, 2, 4])
        s["line_horizon"] = r.choice([500, 2000, 6000])
    return s


def gen_scenario(seed: int, optimizer: str, family: str, mode: str, validate, *, tier="quick", opts=None):
    """One engine-G scenario descriptor."""
    opts = opts or {}
    r = random.Random(H(seed, "workload"))
    task = gen_task(r, family, minmax=opts.get("minmax"), dim_max=opts.get("dim_max", 8), big_dim=opts.get("big_dim"))
    cyc = opts.get("cycles", (1, 12) if tier == "quick" else (1, 40))
    cfg, perturbed = gen_config(r, optimizer, validate, cycles=cyc, perturb_p=opts.get("perturb_p", 0.3),
                                pop_scales=opts.get("pop_scales", (1, 1, 1.5, 2, 3)),
                                stop_opts=opts.get("stop_opts", True), any_pop_p=opts.get("any_pop_p", 0.3),
                                extreme_p=opts.get("extreme_p", 0.05), extreme_index=opts.get("extreme_index"))
    rs = random.Random(H(seed, "shrunken-problem"))
    if rs.random() < opts.get("small_pop_p", 0.08):
        # a shrunken problem: a handful of agents (and the optimizer's own counts scaled down with them), whatever the
        # validators accept - degenerate states (one group left, all agents equal) are reached within a few cycles
        base = base_configs()[optimizer]["params"]
        q = dict(cfg)
        q["population_size"] = rs.choice([2, 3, 4, 5, 6, 8])
        f = q["population_size"] / max(1, base["population_size"])
        for k, v in base.items():
            if k in COMMON or isinstance(v, bool) or not isinstance(v, int):
                continue
            if v >= base["population_size"] and q.get(k) == v:
                q[k] = max(q["population_size"], int(round(v * f)))
        try:
            validate(optimizer, q)
            cfg = q
            perturbed = list(perturbed) + ["population_size"]
        except Exception:
            pass
    workers = None
    if mode != "serial":
        workers = r.choice([1, 2, 3, 4, 4, 8, 16]) if r.random() < 0.8 else r.randrange(1, 17)
    desc = {
        "seed": seed, "optimizer": optimizer, "config": cfg, "perturbed": perturbed, "task": task,
        "mode": mode, "workers": workers,
        "sched": gen_sched(r, opts.get("p_line", 0.05) if mode == "thread" else 0.0) if mode != "serial" else {"policy": "fifo"},
        "faults": gen_faults(r, mode, workers or 0, p_none=opts.get("p_no_faults", 0.45), kinds=opts.get("fault_kinds")),
    }
    desc["history"] = gen_history(r, task, p=opts.get("p_history", 0.2))
    if desc["history"]:
        # own stream (the scenarios above stay what they were): what the process did and what the user's script changed
        # between the earlier runs and the observed one
        rh = random.Random(H(seed, "history-process"))
        for h in desc["history"]:
            if rh.random() < 0.5:
                # the earlier run used a pool too - the same kind and size as the observed run will ask for
                h["mode"] = mode if mode != "serial" else rh.choice(["thread", "process"])
                h["workers"] = workers if workers is not None else rh.choice([1, 2, 4])
        rk = random.Random(H(seed, "history-results"))
        for h in desc["history"]:
            u = rk.random()
            if u < 0.3:
                h["keep_result"] = True          # the caller keeps the earlier result (checked again after the last run)
            elif u < 0.45:
                h["scribble_result"] = True      # the caller edits the earlier result in place before running again
            if h.get("instance") == "other" and rk.random() < 0.5:
                h["shared_config"] = True        # both optimizers are built on one configuration object
        if rh.random() < 0.35 and "multi" not in task["objective"]:
            # the objective reads a global of the user's script, and the script changed it between the runs
            task["objective"]["user_state"] = True
            task["objective"]["user_offset"] = rh.choice([0.0, 1.5, -2.0, 100.0])
            for h in desc["history"]:
                ob = h["task"]["objective"]
                if "multi" not in ob:
                    ob["user_state"] = True
                    ob["user_offset"] = rh.choice([3.0, -7.0, 1000.0, 0.25])
        if rh.random() < opts.get("p_history_config", 0.3) and any(h.get("instance", "same") == "same" for h in desc["history"]):
            # the earlier runs used another configuration of the same instance (a tuner re-configures one instance per
            # grid point): other parameter values, a larger or a smaller population
            try:
                hc, _ = gen_config(rh, optimizer, validate, cycles=(1, 4), perturb_p=0.7,
                                   pop_scales=(1, 1.5, 2, 3), stop_opts=False, any_pop_p=0.3)
                # the earlier configuration's population: equal to, larger than or smaller than the observed one
                rel = rh.choice(["equal", "larger", "larger", "smaller"])
                bp_ = base_configs()[optimizer]["params"]["population_size"]
                if rel == "equal":
                    hc["population_size"] = cfg["population_size"]
                elif rel == "larger":
                    hc["population_size"] = cfg["population_size"] + rh.randrange(1, cfg["population_size"] + 1)
                elif cfg["population_size"] > bp_:
                    hc["population_size"] = rh.randrange(bp_, cfg["population_size"])
                validate(optimizer, hc)
                desc["history_config"] = hc
            except Exception:
                pass
        if rh.random() < 0.25:
            # the observed task's class is defined only after the earlier runs (notebook cell, REPL)
            task["cls"] = "LateTask"
            task["late"] = True
        elif rh.random() < 0.3:
            # the caller keeps ONE Task object and re-declares its search space / objective / direction between the runs
            # (same class, same number of coordinates)
            elig = [h for h in desc["history"] if h.get("kind") in ("other_space", "other_objective", "same")]
            if elig:
                elig[-1]["reuse_object"] = True
    if not desc["history"] and not opts.get("no_via"):
        # the OptimizationResult may reach the user through the utilities that drive optimizers generically
        rv = random.Random(H(seed, "via"))
        u = rv.random()
        if u < opts.get("p_via", 0.10) / 2:
            desc["via"] = "hypertuner"
            desc["via_trials"] = rv.choice([1, 1, 2])
        elif u < opts.get("p_via", 0.10):
            desc["via"] = "multitask"
            desc["via_trials"] = rv.choice([1, 2, 2, 3])
            desc["via_pick"] = rv.randrange(3)
    rq = random.Random(H(seed, "seeded-task-and-party-faults"))
    if task.get("seed") is None and rq.random() < 0.25:
        task["seed"] = rq.choice([0, 1, 7, 42, 2 ** 31 - 1])     # the documented way to make a run repeatable
    if rq.random() < opts.get("p_objective_raise", 0.04):
        # foreign-party fault: one evaluation fails, with whatever exception type user code may raise
        from sim.faults import EXC_TYPES
        desc["faults"] = list(desc["faults"]) + [{"kind": "objective_raise", "at": rq.randrange(1, rq.choice([30, 120, 600])),
                                                  "exc": rq.choice(EXC_TYPES + ["RuntimeError"] + ["StopIteration"] * 4 + ["TypeError", "AttributeError", "PicklingError"])}]
    if mode == "process" and rq.random() < opts.get("p_worker_crash", 0.04):
        # a worker process dies abruptly (OOM kill, segfault): every pending future breaks
        desc["faults"] = list(desc["faults"]) + [{"kind": "worker_crash", "at_task": rq.randrange(1, 40)}]
    rse = random.Random(H(seed, "shared-early-stopping"))
    if isinstance(cfg.get("early_stopping"), dict) and cfg["early_stopping"].get("patience") and rse.random() < 0.4:
        # the caller defined ONE EarlyStopping object and also used it for another configuration (a shorter / longer run)
        other = dict(cfg)
        other["max_cycles"] = rse.choice([1, 2, 3, cfg["max_cycles"] + 5, 50])
        try:
            validate(optimizer, other)
            desc["shared_early_stopping"] = {k: v for k, v in other.items() if k != "early_stopping"}
        except Exception:
            pass
    if random.Random(H(seed, "np-return")).random() < 0.15:
        task["objective"]["np_return"] = True    # a NumPy-based objective: returns numpy.float64, not a Python float
    # diagnostics switched on (observer effect): the constructor's debug flag only prints
    desc["debug"] = r.random() < opts.get("p_debug", 0.08)
    return desc
