#!/bin/bash
# Offline setup: nothing is downloaded or built; verify the interpreter and that pyvolutionary resolves to the repo.
set -e
HERE="$(cd "$(dirname "${BASH_SOURCE[0]}")" && pwd)"
PY="${VERIF_PYTHON:-/venv/bin/python}"
REPO="${VERIF_REPO:-/repo}"
mkdir -p "$HERE/evidence" "$HERE/replays"
PYTHONDONTWRITEBYTECODE=1 "$PY" - <<PYEOF
import sys, os
sys.path.insert(0, "$REPO")
import numpy, pydantic, pandas
import pyvolutionary
got = os.path.realpath(os.path.dirname(os.path.dirname(pyvolutionary.__file__)))
assert got == os.path.realpath("$REPO"), (got, "$REPO")
print("setup ok: python", sys.version.split()[0], "numpy", numpy.__version__, "pydantic", pydantic.__version__, "pyvolutionary from", got)
PYEOF
